// C05 - Poisson log-likelihood for projection data == textbook definition on an explicit system matrix,
//       and independence of the order of first use (history part).
//
// E part : configurations x data sets x images, every quantity compared with the formulas in double on explicit P
// H part : all orders of first use of {value, gradient, gradient+sens, subset sensitivity, Hessian x v, approx Hessian x v}
//          after set_up, objective function constructed in pre-poisoned memory (0x00/0xAA/0xFF), sensitivity recomputed
//          or supplied; every number is also fed to ctx.digest so that the driver can compare runs with different heap poisoning
// A part : (accessor invariants, inside E and H) get_sensitivity() == P^T n 1 on the explicit matrix and
//          sum_s get_subset_sensitivity(s) == get_sensitivity(), with use_subset_sensitivities on AND off (>= 2 subsets), directly after
//          set_up, after the value/gradient/Hessian requests of every E case, and in EVERY state of the H search (after set_up and after
//          each request of each order)
// R part : (re-set-up histories, run with the E oracles) build the object for a PREVIOUS configuration, set_up, optionally use it (value,
//          gradient, gradient+sensitivity, Hessian product, sensitivities), optionally call ONE setter that requires a new set_up (additive
//          term, normalisation, zero_seg0_end_planes, max_segment_num_to_process, num_subsets, use_subset_sensitivities; every other legal
//          previous value), set_up the SAME object again, then every E comparison for the CURRENT configuration as for a fresh object
#include "vmc.h"
#include "stir_small.h"
#include "stir/recon_buildblock/PoissonLogLikelihoodWithLinearModelForMeanAndProjData.h"
#include "stir/recon_buildblock/ProjectorByBinPairUsingProjMatrixByBin.h"
#include "stir/recon_buildblock/ProjMatrixByBinUsingRayTracing.h"
#include "stir/recon_buildblock/TrivialBinNormalisation.h"
#include "stir/recon_buildblock/BinNormalisationFromProjData.h"
#include "stir/recon_buildblock/ChainedBinNormalisation.h"
#include "stir/recon_buildblock/QuadraticPrior.h"
#include "stir/DiscretisedDensity.h"
#include "stir/Succeeded.h"
#include <new>
#include <algorithm>
#include <numeric>

using namespace stir;
typedef DiscretisedDensity<3, float> Target;
typedef VoxelsOnCartesianGrid<float> Vox;
typedef PoissonLogLikelihoodWithLinearModelForMeanAndProjData<Target> ObjFn;

namespace {

const double EPSF = 1.1920929e-7;
const double CTOL = 64.0;        // |impl-ref| <= CTOL*eps_float*sum|terms| (+ SMALL_NUM share, see assumptions)
const double SMALLNUM = 1.e-6;   // STIR's SMALL_NUM in recon_array_functions.cxx (values <= max*SMALL_NUM are treated as 0)

// ------------------------------------------------------------------------------------------------ geometry
struct Geo { const char* name; int D, R, span, maxd, ntof; };
// order: simplest first
const Geo GEOS[] = {
  { "cyl8x2", 8, 2, 1, 1, 0 },      // 4 views x 4 tang x (2+1+1) = 64 bins, 3x5x5 = 75 voxels
  { "cyl12x3", 12, 3, 1, 2, 0 },    // 6 x 6 x 9 = 324 bins, 5x7x7 = 245 voxels
  { "cyl8x2tof3", 8, 2, 1, 1, 3 },  // TOF, 3 timing positions
  { "cyl16x2s3", 16, 2, 3, 1, 0 },  // span 3: one segment with 3 axial positions; 8 views (90-degree symmetries active)
};
const int NGEO = sizeof(GEOS) / sizeof(GEOS[0]);

struct World
{
  Geo g;
  shared_ptr<Scanner> sc;
  shared_ptr<ProjDataInfo> pdi, pdi_nt;
  shared_ptr<Vox> im;
  small::DenseP P, Pn; // TOF (=data) rows, non-TOF rows, extracted from the matrix configured as the objective function's (sym)
  shared_ptr<ProjMatrixByBinUsingRayTracing> mat; // kept for its symmetries object
  mutable shared_ptr<ProjMatrixByBinUsingRayTracing> shared_mat; // H part: one cache-less (hence stateless) matrix shared by all orders
  int sym = 0;
  long rows_differing_from_direct = 0;
  std::vector<int> nt_of; // data bin -> index of the bin with the same (seg,ax,view,tang) in Pn
  int nviews = 0, min_view = 0, max_seg = 0, nb = 0, nbn = 0, nvox = 0;
  bool tof = false;
};

std::map<int, shared_ptr<World>> g_worlds;
shared_ptr<ProjMatrixByBinUsingRayTracing> make_matrix(int sym);

long rows_differing(const small::DenseP& A, const small::DenseP& B)
{
  long bad = 0;
  for (size_t b = 0; b < A.rows.size(); ++b)
    {
      std::map<int, double> a(A.rows[b].begin(), A.rows[b].end()), c(B.rows[b].begin(), B.rows[b].end());
      double mx = 0, worst = 0;
      for (auto& e : a) mx = std::max(mx, e.second);
      for (auto& e : a) worst = std::max(worst, std::fabs(e.second - (c.count(e.first) ? c[e.first] : 0.0)));
      for (auto& e : c) worst = std::max(worst, std::fabs(e.second - (a.count(e.first) ? a[e.first] : 0.0)));
      if (worst > 1e-5 * (mx + 1e-9)) ++bad;
    }
  return bad;
}

shared_ptr<World> world(int gi, int sym)
{
  auto it = g_worlds.find(gi * 2 + sym);
  if (it != g_worlds.end()) return it->second;
  shared_ptr<World> w(new World);
  w->sym = sym;
  w->g = GEOS[gi];
  const Geo& g = w->g;
  w->sc = small::cyl_scanner(g.D, g.R, g.ntof);
  w->pdi = small::make_pdi(w->sc, g.span, g.maxd, 0, 0, false, g.ntof ? 1 : 0);
  w->tof = w->pdi->is_tof_data();
  w->pdi_nt = w->tof ? w->pdi->create_non_tof_clone() : w->pdi;
  w->im = small::make_image(*w->pdi);
  {
    shared_ptr<ExamInfo> ex(new ExamInfo);
    ex->imaging_modality = ImagingModality::PT;
    w->im->set_exam_info(*ex);
  }
  {
    w->mat = make_matrix(sym);
    w->mat->enable_cache(false);
    w->mat->set_up(w->pdi, w->im);
    w->P = small::extract_P(*w->mat, *w->pdi, *w->im);
    if (sym != 0)
      {
        auto m = small::direct_matrix(w->pdi, w->im);
        w->rows_differing_from_direct = rows_differing(w->P, small::extract_P(*m, *w->pdi, *w->im));
      }
  }
  if (w->tof)
    {
      auto m = make_matrix(sym);
      m->enable_cache(false);
      m->set_up(w->pdi_nt, w->im);
      w->Pn = small::extract_P(*m, *w->pdi_nt, *w->im);
    }
  else
    w->Pn = w->P;
  w->nb = (int)w->P.bins.size();
  w->nbn = (int)w->Pn.bins.size();
  w->nvox = (int)w->P.nvox;
  w->nviews = w->pdi->get_num_views();
  w->min_view = w->pdi->get_min_view_num();
  w->max_seg = w->pdi->get_max_segment_num();
  std::map<std::vector<int>, int> idx;
  for (int i = 0; i < w->nbn; ++i)
    {
      const Bin& b = w->Pn.bins[i];
      idx[{ b.segment_num(), b.axial_pos_num(), b.view_num(), b.tangential_pos_num() }] = i;
    }
  w->nt_of.resize(w->nb);
  for (int i = 0; i < w->nb; ++i)
    {
      const Bin& b = w->P.bins[i];
      w->nt_of[i] = idx[{ b.segment_num(), b.axial_pos_num(), b.view_num(), b.tangential_pos_num() }];
    }
  g_worlds[gi * 2 + sym] = w;
  return w;
}

// ------------------------------------------------------------------------------------------------ configuration
struct Cfg
{
  int geo = 0, sym = 0, add = 0, norm = 0, zero = 0, mseg = 0, usub = 1, ns = 1, tofsens = 0;
  std::string str() const
  {
    std::ostringstream o;
    o << "g=" << geo << ";sym=" << sym << ";add=" << add << ";norm=" << norm << ";zero=" << zero << ";mseg=" << mseg << ";usub=" << usub
      << ";ns=" << ns << ";tofsens=" << tofsens;
    return o.str();
  }
  static Cfg parse(const std::map<std::string, std::string>& m)
  {
    Cfg c;
    auto gi = [&](const char* k, int d) { auto it = m.find(k); return it == m.end() ? d : atoi(it->second.c_str()); };
    c.geo = gi("g", 0); c.sym = gi("sym", 0); c.add = gi("add", 0); c.norm = gi("norm", 0); c.zero = gi("zero", 0);
    c.mseg = gi("mseg", 0); c.usub = gi("usub", 1); c.ns = gi("ns", 1); c.tofsens = gi("tofsens", 0);
    return c;
  }
};
const char* ADDN[] = { "none", "const", "labelled" };
const char* NORMN[] = { "default", "trivial", "projdata", "chained", "projdataTOF" };
// R part: what is changed between the first and the second set_up of the same object
enum { RS_NONE = 0, RS_ADD, RS_NORM, RS_ZERO, RS_MSEG, RS_NS, RS_USUB, NRS };
const char* RSN[] = { "none", "additive", "normalisation", "zero_seg0_end_planes", "max_segment_num_to_process", "num_subsets", "use_subset_sensitivities" };

// float-exact factor / additive / data alphabets
inline float factor1(int i) { return 0.5F + 3.5F * float(i % 251) / 251.F; } // normalisation factors (1/efficiency) in [0.5,4)
inline float factor2(int i) { return 0.75F + float(i % 13) / 8.F; }          // second member of a chain, in [0.75, 2.25]
inline float additive_lab(int i) { return 0.25F + float(i % 127) / 64.F; }   // in [0.25, 2.22]

// per-bin model arrays of a configuration (double; efficiencies as STIR sees them: 1/float factor)
struct Model
{
  std::vector<double> a, n;     // additive and efficiency per data bin, AFTER zeroing of end planes
  std::vector<double> a_raw, n_raw;
  std::vector<double> n_nt;     // efficiency per non-TOF bin (sensitivity with non-TOF back projector), after zeroing
  std::vector<char> inseg;      // |segment| <= max_segment_num_to_process
  std::vector<char> inseg_nt;
  std::vector<char> endplane;   // segment 0 end plane and zero_seg0_end_planes on
  std::vector<int> subset_of, subset_of_nt;
  bool subsets_not_view_mod_ns = false;
};

bool is_endplane(const ProjDataInfo& p, const Bin& b)
{
  return b.segment_num() == 0 && (b.axial_pos_num() == p.get_min_axial_pos_num(0) || b.axial_pos_num() == p.get_max_axial_pos_num(0));
}

Model make_model(const World& w, const Cfg& c)
{
  Model m;
  m.a.resize(w.nb); m.n.resize(w.nb); m.inseg.resize(w.nb); m.endplane.resize(w.nb); m.subset_of.resize(w.nb);
  m.n_nt.resize(w.nbn); m.inseg_nt.resize(w.nbn); m.subset_of_nt.resize(w.nbn);
  // subset of a view/segment: STIR processes the related viewgrams of the BASIC view/segments whose view is in the subset
  auto subset_of_vs = [&](int view, int seg) -> int {
    ViewSegmentNumbers vs(view, seg);
    w.mat->get_symmetries_ptr()->find_basic_view_segment_numbers(vs);
    return (vs.view_num() - w.min_view) % c.ns;
  };
  auto eff_nt = [&](int i) -> double {
    switch (c.norm)
      {
      case 2: return 1.0 / double(factor1(i));
      case 3: return double(1.F / factor1(i)) / double(factor2(i)); // STIR divides 1 by f1 (float), then by f2
      default: return 1.0;
      }
  };
  for (int i = 0; i < w.nb; ++i)
    {
      const Bin& b = w.P.bins[i];
      m.a[i] = c.add == 0 ? 0.0 : c.add == 1 ? 0.5 : double(additive_lab(i));
      m.n[i] = c.norm == 4 ? 1.0 / double(factor1(i)) : eff_nt(w.nt_of[i]);
      m.inseg[i] = std::abs(b.segment_num()) <= c.mseg;
      m.endplane[i] = c.zero && is_endplane(*w.pdi, b);
      m.subset_of[i] = subset_of_vs(b.view_num(), b.segment_num());
      if (m.subset_of[i] != (b.view_num() - w.min_view) % c.ns) m.subsets_not_view_mod_ns = true;
    }
  m.a_raw = m.a; m.n_raw = m.n;
  for (int i = 0; i < w.nb; ++i)
    if (m.endplane[i]) { m.a[i] = 0; m.n[i] = 0; }
  for (int i = 0; i < w.nbn; ++i)
    {
      const Bin& b = w.Pn.bins[i];
      m.n_nt[i] = eff_nt(i);
      if (c.zero && is_endplane(*w.pdi_nt, b)) m.n_nt[i] = 0;
      m.inseg_nt[i] = std::abs(b.segment_num()) <= c.mseg;
      m.subset_of_nt[i] = subset_of_vs(b.view_num(), b.segment_num());
    }
  return m;
}

// ------------------------------------------------------------------------------------------------ STIR object construction
shared_ptr<ProjMatrixByBinUsingRayTracing> make_matrix(int sym)
{
  shared_ptr<ProjMatrixByBinUsingRayTracing> m(new ProjMatrixByBinUsingRayTracing());
  if (sym == 0)
    {
      m->set_do_symmetry_90degrees_min_phi(false);
      m->set_do_symmetry_180degrees_min_phi(false);
      m->set_do_symmetry_swap_segment(false);
      m->set_do_symmetry_swap_s(false);
      m->set_do_symmetry_shift_z(false);
    }
  m->set_num_tangential_LORs(1);
  m->set_restrict_to_cylindrical_FOV(true);
  return m;
}

shared_ptr<ProjDataInMemory> projdata_from(const shared_ptr<const ProjDataInfo>& pdi, const std::vector<double>& v)
{
  auto pd = small::make_projdata(pdi, 0.F);
  small::unflat(*pd, v);
  return pd;
}

shared_ptr<BinNormalisation> make_norm(const World& w, const Cfg& c)
{
  if (c.norm == 0) return shared_ptr<BinNormalisation>(); // leave the default of the objective function
  if (c.norm == 1) return shared_ptr<BinNormalisation>(new TrivialBinNormalisation);
  std::vector<double> f1(w.nbn), f2(w.nbn);
  for (int i = 0; i < w.nbn; ++i) { f1[i] = factor1(i); f2[i] = factor2(i); }
  if (c.norm == 2) return shared_ptr<BinNormalisation>(new BinNormalisationFromProjData(projdata_from(w.pdi_nt, f1)));
  if (c.norm == 3)
    {
      shared_ptr<BinNormalisation> n1(new BinNormalisationFromProjData(projdata_from(w.pdi_nt, f1)));
      shared_ptr<BinNormalisation> n2(new BinNormalisationFromProjData(projdata_from(w.pdi_nt, f2)));
      return shared_ptr<BinNormalisation>(new ChainedBinNormalisation(n1, n2));
    }
  // TOF factors for TOF data
  std::vector<double> ft(w.nb);
  for (int i = 0; i < w.nb; ++i) ft[i] = factor1(i);
  return shared_ptr<BinNormalisation>(new BinNormalisationFromProjData(projdata_from(w.pdi, ft)));
}

struct Built
{
  shared_ptr<ObjFn> obj;
  shared_ptr<ProjDataInMemory> y, add;
  shared_ptr<QuadraticPrior<float>> prior;
};

// placement of the objective function in memory pre-filled with a byte pattern (poison < 0: ordinary new)
shared_ptr<ObjFn> new_objfn(int poison)
{
  if (poison < 0) return shared_ptr<ObjFn>(new ObjFn);
  void* mem = ::operator new(sizeof(ObjFn));
  std::memset(mem, poison, sizeof(ObjFn));
  ObjFn* p = new (mem) ObjFn;
  return shared_ptr<ObjFn>(p, [](ObjFn* q) { q->~ObjFn(); ::operator delete(static_cast<void*>(q)); });
}

Built build(const World& w, const Cfg& c, const Model& m, const std::vector<double>& y, bool with_prior, int poison = -1, bool share_matrix = false)
{
  Built b;
  b.obj = new_objfn(poison);
  b.y = projdata_from(w.pdi, y);
  b.obj->set_proj_data_sptr(b.y);
  shared_ptr<ProjMatrixByBin> pm;
  if (share_matrix)
    {
      // set_up of a ray-tracing matrix costs ~10 ms (erf table); a matrix with its cache disabled keeps no history, so sharing it
      // between the objective functions of different orders does not carry state from one order to the next
      if (!w.shared_mat) { w.shared_mat = make_matrix(c.sym); w.shared_mat->enable_cache(false); }
      pm = w.shared_mat;
    }
  else
    pm = make_matrix(c.sym);
  shared_ptr<ProjectorByBinPair> pp(new ProjectorByBinPairUsingProjMatrixByBin(pm));
  b.obj->set_projector_pair_sptr(pp);
  if (c.add != 0)
    {
      b.add = projdata_from(w.pdi, m.a_raw);
      b.obj->set_additive_proj_data_sptr(b.add);
    }
  auto norm = make_norm(w, c);
  if (norm) b.obj->set_normalisation_sptr(norm);
  b.obj->set_zero_seg0_end_planes(c.zero != 0);
  b.obj->set_max_segment_num_to_process(c.mseg);
  b.obj->set_use_subset_sensitivities(c.usub != 0);
  b.obj->set_num_subsets(c.ns);
  if (c.tofsens) b.obj->use_tofsens = true;
  if (with_prior)
    {
      b.prior.reset(new QuadraticPrior<float>(false, 0.5F));
      b.obj->set_prior_sptr(b.prior);
    }
  return b;
}

// ------------------------------------------------------------------------------------------------ reference formulas (double)
struct Ref
{
  const World& w; const Cfg& c; const Model& m;
  std::vector<double> y;  // data AFTER zeroing of end planes
  std::vector<double> y_raw;
  Ref(const World& w_, const Cfg& c_, const Model& m_, const std::vector<double>& yraw) : w(w_), c(c_), m(m_), y(yraw), y_raw(yraw)
  {
    for (int i = 0; i < w.nb; ++i) if (m.endplane[i]) y[i] = 0;
  }
  bool in(int i, int S) const { return m.inseg[i] && (S < 0 || m.subset_of[i] == S); }
  bool in_nt(int i, int S) const { return m.inseg_nt[i] && (S < 0 || m.subset_of_nt[i] == S); }
  std::vector<double> denom(const std::vector<double>& lam) const
  {
    std::vector<double> d = small::mulP(w.P, lam);
    for (int i = 0; i < w.nb; ++i) d[i] += m.a[i];
    return d;
  }
  // value of subset S (S<0: all); T = sum of magnitudes
  double value(const std::vector<double>& d, int S, double& T) const
  {
    double L = 0; T = 0;
    for (int i = 0; i < w.nb; ++i)
      {
        if (!in(i, S)) continue;
        const double yb = m.n[i] * d[i];
        if (y[i] > 0) { L += y[i] * std::log(yb) - yb; T += std::fabs(y[i] * std::log(yb)) + yb + y[i]; }
        else { L -= yb; T += yb; }
      }
    return L;
  }
  // backprojection of per-bin weights q (only bins of subset S); T gets sum of |terms| with qabs
  void back(const std::vector<double>& q, const std::vector<double>& qabs, int S, std::vector<double>& out, std::vector<double>& T) const
  {
    out.assign(w.nvox, 0.0); T.assign(w.nvox, 0.0);
    for (int i = 0; i < w.nb; ++i)
      {
        if (!in(i, S)) continue;
        for (auto& e : w.P.rows[i]) { out[e.first] += e.second * q[i]; T[e.first] += e.second * qabs[i]; }
      }
  }
  void gradient(const std::vector<double>& d, int S, bool plus_sens, std::vector<double>& out, std::vector<double>& T) const
  {
    std::vector<double> q(w.nb, 0.0), qa(w.nb, 0.0);
    for (int i = 0; i < w.nb; ++i)
      {
        const double r = y[i] > 0 ? y[i] / d[i] : 0.0;
        q[i] = r - (plus_sens ? 0.0 : m.n[i]);
        qa[i] = r + m.n[i];
      }
    back(q, qa, S, out, T);
  }
  // what (gradient+sens) - gradient must be: P_S^T n over the data bins
  void sens_data_bins(int S, std::vector<double>& out, std::vector<double>& T) const { back(m.n, m.n, S, out, T); }
  // sensitivity as computed (non-TOF back projector unless TOF sensitivities are used)
  void sensitivity(int S, bool tof_rows, std::vector<double>& out, std::vector<double>& T) const
  {
    if (tof_rows) { sens_data_bins(S, out, T); return; }
    out.assign(w.nvox, 0.0);
    for (int i = 0; i < w.nbn; ++i)
      {
        if (!in_nt(i, S)) continue;
        for (auto& e : w.Pn.rows[i]) out[e.first] += e.second * m.n_nt[i];
      }
    T = out;
  }
  void hessian(const std::vector<double>& d, const std::vector<double>& v, int S, std::vector<double>& out, std::vector<double>& T) const
  {
    std::vector<double> pv = small::mulP(w.P, v);
    std::vector<double> q(w.nb, 0.0), qa(w.nb, 0.0);
    for (int i = 0; i < w.nb; ++i)
      if (y[i] > 0) { q[i] = -y[i] * pv[i] / (d[i] * d[i]); qa[i] = -q[i]; }
    back(q, qa, S, out, T);
  }
  void approx_hessian(const std::vector<double>& v, int S, std::vector<double>& out, std::vector<double>& T) const
  {
    std::vector<double> pv = small::mulP(w.P, v);
    std::vector<double> q(w.nb, 0.0), qa(w.nb, 0.0);
    for (int i = 0; i < w.nb; ++i)
      if (y[i] > 0) { q[i] = -m.n[i] * m.n[i] * pv[i] / y[i]; qa[i] = -q[i]; }
    back(q, qa, S, out, T);
  }
};

// ------------------------------------------------------------------------------------------------ helpers
std::string hexhash(uint64_t h) { char b[24]; snprintf(b, sizeof b, "%llx", (unsigned long long)h); return b; }
// digest of an array, rounded to ~5 significant digits (16 mantissa bits kept)
std::string dg(const std::vector<double>& v)
{
  uint64_t h = 1469598103934665603ULL;
  for (double x : v)
    {
      float f = (float)x; uint32_t u; std::memcpy(&u, &f, 4);
      u = (u + 0x40u) & ~0x7Fu;
      h = vmc::fnv(&u, 4, h);
    }
  return hexhash(h);
}
std::string dg(double x) { char b[40]; snprintf(b, sizeof b, "%.5g", x); return b; }

struct Cmp { double worst = 0; int at = -1; double impl = 0, ref = 0, tol = 0; bool bad = false; };
// elementwise comparison; extra = additional absolute slack per element as a fraction of T (SMALL_NUM share)
Cmp compare(const std::vector<double>& impl, const std::vector<double>& ref, const std::vector<double>& T, double c = CTOL, double extra = 0)
{
  Cmp r;
  for (size_t i = 0; i < ref.size(); ++i)
    {
      const double tol = (c * EPSF + extra) * T[i] + 1e-30;
      const double e = std::fabs(impl[i] - ref[i]);
      const double ratio = e / tol;
      if (!(ratio <= r.worst)) { r.worst = ratio; r.at = (int)i; r.impl = impl[i]; r.ref = ref[i]; r.tol = tol; }
      if (!(e <= tol)) r.bad = true;
    }
  return r;
}
std::string cmpmsg(const Cmp& c)
{
  std::ostringstream o; o.precision(9);
  o << "element " << c.at << ": impl=" << c.impl << " ref=" << c.ref << " |diff|=" << std::fabs(c.impl - c.ref) << " tol=" << c.tol;
  return o.str();
}

// image alphabets: id -> image; ids: 0 uniform 1; 1 labelled; 2+3*j+k: uniform 1 with voxel j set to {0,0.5,2}[k]
std::vector<double> image_by_id(const World& w, int id)
{
  std::vector<double> v(w.nvox, 1.0);
  if (id == 1) { for (int j = 0; j < w.nvox; ++j) v[j] = 0.25 + double(j % 16) / 8.0; }
  else if (id >= 2) { static const double val[3] = { 0.0, 0.5, 2.0 }; v[(id - 2) / 3] = val[(id - 2) % 3]; }
  return v;
}
// direction vectors for Hessian products: 0 uniform 1; 1 labelled; 2+j: unit voxel j
std::vector<double> vec_by_id(const World& w, int id)
{
  std::vector<double> v(w.nvox, 0.0);
  if (id == 0) v.assign(w.nvox, 1.0);
  else if (id == 1) { for (int j = 0; j < w.nvox; ++j) v[j] = 0.5 + double(j % 8) / 4.0; }
  else v[id - 2] = 1.0;
  return v;
}
// data sets: 0 round(ybar(uniform 1)); 1 ones on the support; 2 labelled on the support; 3+k: ones on the support + 6 at bin k
std::vector<double> data_by_id(const World& w, const Model& m, int id)
{
  std::vector<double> y(w.nb, 0.0);
  std::vector<double> ones(w.nvox, 1.0);
  std::vector<double> d = small::mulP(w.P, ones);
  for (int i = 0; i < w.nb; ++i)
    {
      const bool support = !w.P.rows[i].empty() || m.a_raw[i] > 0;
      if (id == 0) y[i] = std::floor(m.n_raw[i] * (d[i] + m.a_raw[i]) + 0.5);
      else if (!support) y[i] = 0;
      else if (id == 1) y[i] = 1;
      else if (id == 2) y[i] = 1 + (i % 7);
      else y[i] = (i == id - 3) ? 7 : 1;
    }
  return y;
}

shared_ptr<Vox> to_image(const World& w, const std::vector<double>& v)
{
  shared_ptr<Vox> im(w.im->clone());
  small::unflat(*im, v);
  return im;
}
std::vector<double> from_image(const Target& t) { return small::flat(dynamic_cast<const Vox&>(t)); }

struct Tally { vmc::Ctx& ctx; };

// screen (from P, image, additive, data and factors only): every bin of the processed segments stays away from the
// thresholds of divide_and_truncate / accumulate_loglikelihood
bool screen_ok(const World& w, const Model& m, const Ref& r, const std::vector<double>& d, std::string& why)
{
  for (int i = 0; i < w.nb; ++i)
    {
      if (!m.inseg[i]) continue;
      if (r.y[i] > 0)
        {
          if (!(d[i] > 0)) { why = "y>0 where P lambda + a = 0"; return false; }
          if (r.y[i] > 2000.0 * d[i]) { why = "y/(P lambda+a) near max_quotient"; return false; }
          if (r.y[i] > 2000.0 * m.n[i] * d[i]) { why = "y/ybar near max_quotient"; return false; }
        }
    }
  return true;
}

// ------------------------------------------------------------------------------------------------ E part: one configuration
struct ERun
{
  vmc::Ctx& ctx;
  const World& w;
  Cfg c;
  Model m;
  std::string cs;
  long only_img = -1, only_dat = -1, only_vec = -1; // replay restriction
  std::vector<double> totref_, totT_;               // reference total sensitivity of the current data set (set by run_data)
  bool total_ok_after_set_up_ = true, sum_ok_after_set_up_ = true;
  // R part: history "previous configuration -> set_up -> [requests] -> [setter] -> set_up"; rs < 0: fresh object (E part)
  int rs = -1, pv = 0, used = 0;
  bool hist() const { return rs >= 0; }
  std::string hs() const { return hist() ? ";rs=" + std::to_string(rs) + ";pv=" + std::to_string(pv) + ";used=" + std::to_string(used) : std::string(); }

  ERun(vmc::Ctx& ctx_, const World& w_, const Cfg& c_) : ctx(ctx_), w(w_), c(c_), m(make_model(w_, c_)), cs(c_.str()) {}

  std::string key(const std::string& clause, const std::string& extra = "") const
  {
    std::ostringstream o;
    o << "clause=" << clause << ";tof=" << (w.tof ? 1 : 0);
    const bool is_prior = clause.compare(0, 11, "prior_share") == 0;
    const bool is_hess = clause.find("hessian") != std::string::npos && clause.find("approx") == std::string::npos;
    const bool is_acc = clause.compare(0, 26, "sum_of_get_subset_sensitiv") == 0; // implementation against implementation
    if (!is_prior && !is_hess && !is_acc) o << ";norm=" << NORMN[c.norm];
    if (!is_prior && !is_acc) o << ";zero_end_planes=" << c.zero;
    if (!extra.empty()) o << ";" << extra;
    if (hist()) o << ";history=second_set_up;setter=" << RSN[rs];
    return o.str();
  }
  std::string kase(int dat, int img, const std::string& extra = "") const
  {
    return cs + hs() + ";dat=" + std::to_string(dat) + ";img=" + std::to_string(img) + (extra.empty() ? "" : ";" + extra);
  }
  bool check(const std::string& clause, const std::string& kase_, const std::vector<double>& impl, const std::vector<double>& ref,
             const std::vector<double>& T, const std::string& keyextra = "", double extra = 2 * SMALLNUM)
  {
    ctx.count("comparisons");
    Cmp r = compare(impl, ref, T, CTOL, extra);
    if (!r.bad) ctx.maxi("max_err_over_tol_permille", (long long)std::ceil(std::min(r.worst, 1e6) * 1000));
    if (r.bad) ctx.violation(key(clause, keyextra), kase_, clause + ": " + cmpmsg(r));
    ctx.digest(dg(impl));
    return !r.bad;
  }

  // accessor invariants: get_sensitivity() equals P^T n 1 of the explicit matrix, and the subset sensitivities returned by
  // get_subset_sensitivity(s) add up to what get_sensitivity() returns (impl against impl), whatever was requested before (`when`)
  // after set_up the comparison of get_sensitivity() with the definition is the existing clause `sensitivity_total`; after the requests
  // each invariant is only evaluated if it held after set_up (so that the key names the step that broke it)
  void check_accessors(Built& b, const std::string& kase_, bool after_requests)
  {
    ctx.count("accessor_invariant_checks");
    const std::string ke = "usub=" + std::to_string(c.usub) + ";when=" + (after_requests ? "after_requests" : "after_set_up");
    std::vector<double> total = from_image(b.obj->get_sensitivity()), sum(w.nvox, 0.0);
    for (int S = 0; S < c.ns; ++S)
      {
        std::vector<double> s_impl = from_image(b.obj->get_subset_sensitivity(S));
        for (int j = 0; j < w.nvox; ++j) sum[j] += s_impl[j];
      }
    if (after_requests && total_ok_after_set_up_) check("get_sensitivity_vs_definition", kase_, total, totref_, totT_, ke);
    if (!after_requests) sum_ok_after_set_up_ = check("sum_of_get_subset_sensitivity_vs_get_sensitivity", kase_, sum, total, totT_, ke);
    else if (sum_ok_after_set_up_) check("sum_of_get_subset_sensitivity_vs_get_sensitivity", kase_, sum, total, totT_, ke);
  }

  void run()
  {
    if (w.rows_differing_from_direct)
      {
        ctx.count("configs_with_symmetric_matrix_rows_differing_from_direct");
        ctx.observe(std::string("geometry ") + w.g.name + ": " + std::to_string(w.rows_differing_from_direct) + " of " + std::to_string(w.nb)
                    + " rows of the matrix with symmetries differ (>1e-5 of the row maximum) from the rows with symmetries off (subject of C03); "
                      "the reference uses the rows of the matrix as configured in the objective function");
      }
    if (m.subsets_not_view_mod_ns) ctx.count("configs_where_subset_is_not_view_mod_num_subsets");
    std::vector<int> dats = { 0, 1, 2 };
    if (hist()) dats = { 2 };
    else if (ctx.thorough() && c.geo == 0 && c.sym == 0 && c.ns == 1)
      for (int k = 0; k < w.nb; ++k) dats.push_back(3 + k);
    if (only_dat >= 0) dats = { (int)only_dat };
    for (int dat : dats) run_data(dat);
  }

  void run_data(int dat)
  {
    const std::vector<double> yraw = data_by_id(w, m, dat);
    Ref ref(w, c, m, yraw);
    std::string what;
    bool failed = false;
    Built b;
    if (!hist())
      {
        b = build(w, c, m, yraw, true);
        b.obj->set_recompute_sensitivity(true);
      }
    else
      {
        // previous configuration: the current one with one field replaced by pv
        Cfg c0 = c;
        switch (rs)
          {
          case RS_ADD: c0.add = pv; break;
          case RS_NORM: c0.norm = pv; break;
          case RS_ZERO: c0.zero = pv; break;
          case RS_MSEG: c0.mseg = pv; break;
          case RS_NS: c0.ns = pv; break;
          case RS_USUB: c0.usub = pv; break;
          default: break;
          }
        const Model m0 = make_model(w, c0);
        b = build(w, c0, m0, yraw, true);
        b.obj->set_recompute_sensitivity(true);
        ctx.count("transitions");
        if (small::throws([&] { failed = b.obj->set_up(w.im) != Succeeded::yes; }, &what) || failed)
          {
            ctx.count("rejected_configs_first_set_up");
            ctx.digest("rejected1:" + what);
            return;
          }
        if (used)
          {
            // use the object as set up for the previous configuration (results are the subject of the E part, not compared here)
            shared_ptr<Vox> est = to_image(w, image_by_id(w, 1)), vin = to_image(w, vec_by_id(w, 1));
            shared_ptr<Target> o2(w.im->get_empty_copy());
            if (small::throws([&] {
                  for (int S = 0; S < c0.ns; ++S)
                    {
                      b.obj->compute_objective_function_without_penalty(*est, S);
                      b.obj->compute_sub_gradient_without_penalty(*o2, *est, S);
                      b.obj->compute_sub_gradient_without_penalty_plus_sensitivity(*o2, *est, S);
                      b.obj->accumulate_sub_Hessian_times_input_without_penalty(*o2, *est, *vin, S);
                      (void)b.obj->get_subset_sensitivity(S);
                      ctx.count("transitions", 5);
                    }
                  (void)b.obj->get_sensitivity(); }, &what))
              {
                ctx.count("requests_before_second_set_up_threw");
                ctx.observe("R part: requests on the previous configuration threw: " + what.substr(0, 160));
              }
          }
        // one setter (none for RS_NONE) that requires a new set_up
        switch (rs)
          {
          case RS_ADD:
            if (c.add != 0) { b.add = projdata_from(w.pdi, m.a_raw); b.obj->set_additive_proj_data_sptr(b.add); }
            else { b.add.reset(); b.obj->set_additive_proj_data_sptr(shared_ptr<ExamData>()); } // back to the default: no additive term
            break;
          case RS_NORM:
            {
              shared_ptr<BinNormalisation> norm = make_norm(w, c);
              if (!norm) norm.reset(new TrivialBinNormalisation); // what the default is
              b.obj->set_normalisation_sptr(norm);
              break;
            }
          case RS_ZERO: b.obj->set_zero_seg0_end_planes(c.zero != 0); break;
          case RS_MSEG: b.obj->set_max_segment_num_to_process(c.mseg); break;
          case RS_NS: b.obj->set_num_subsets(c.ns); break;
          case RS_USUB: b.obj->set_use_subset_sensitivities(c.usub != 0); break;
          default: break;
          }
        if (rs != RS_NONE) ctx.count("transitions");
        ctx.count("transitions");
        ctx.count("re_set_up_histories");
        ctx.count(std::string("re_set_up_histories_setter_") + RSN[rs]);
      }
    if (small::throws([&] { failed = b.obj->set_up(w.im) != Succeeded::yes; }, &what) || failed)
      {
        if (hist())
          {
            // the first set_up of the neighbouring configuration succeeded; a fresh object with the current configuration decides whether
            // the current configuration is one STIR rejects (then not a failure) or whether only the re-used object fails
            Built f = build(w, c, m, yraw, true);
            f.obj->set_recompute_sensitivity(true);
            bool ffailed = false; std::string fwhat;
            if (!(small::throws([&] { ffailed = f.obj->set_up(w.im) != Succeeded::yes; }, &fwhat) || ffailed))
              ctx.violation(key("second_set_up", "kind=" + std::string(what.empty() ? "returned_no" : "exception")), kase(dat, 0),
                            "second set_up of the same object failed ('" + what.substr(0, 200) + "') although a fresh object with the same configuration sets up");
          }
        ctx.count("rejected_configs");
        ctx.digest("rejected:" + what);
        return;
      }
    const bool balanced = b.obj->subsets_are_approximately_balanced();
    if (!balanced) ctx.count("unbalanced_configs_sum_over_subsets_only");
    ctx.count("configs_x_data_set_up");
    const int ns = c.ns;
    const bool tof_rows_for_sens = !w.tof || b.obj->use_tofsens;

    // ---- sensitivities (do not depend on the image)
    {
      std::vector<double> tot(w.nvox, 0.0), sref, sT, totref, totT;
      ref.sensitivity(-1, tof_rows_for_sens, totref, totT);
      const std::string k0 = kase(dat, 0);
      std::vector<double> total_impl = from_image(b.obj->get_sensitivity());
      bool sens_ok = check("sensitivity_total", k0, total_impl, totref, totT, "usub=" + std::to_string(c.usub));
      total_ok_after_set_up_ = sens_ok;
      for (int S = 0; S < ns; ++S)
        {
          std::vector<double> s_impl = from_image(b.obj->get_subset_sensitivity(S));
          for (int j = 0; j < w.nvox; ++j) tot[j] += s_impl[j];
          if (c.usub)
            {
              if (balanced)
                {
                  ref.sensitivity(S, tof_rows_for_sens, sref, sT);
                  sens_ok &= check("subset_sensitivity", kase(dat, 0, "S=" + std::to_string(S)), s_impl, sref, sT,
                                   // TOF data with non-TOF sensitivities, projector symmetries on and several subsets: the subsets of the sensitivity are formed
                                   // with the view symmetries of the non-TOF back projector, those of the data terms without (TOF switches them off)
                                   std::string("usub=1") + ((w.tof && !b.obj->use_tofsens && c.sym && c.ns > 1) ? ";nontof_sensitivity_with_view_symmetries_and_subsets=1" : ""));
                }
            }
          else
            {
              // documented: total / num_subsets
              std::vector<double> q(w.nvox), qT(w.nvox);
              for (int j = 0; j < w.nvox; ++j) { q[j] = totref[j] / ns; qT[j] = totT[j] / ns; }
              sens_ok &= check("subset_sensitivity", kase(dat, 0, "S=" + std::to_string(S)), s_impl, q, qT, "usub=0");
            }
        }
      if (sens_ok) check("sum_over_subsets;q=sensitivity", k0, tot, totref, totT, "usub=" + std::to_string(c.usub));
      ctx.nontrivial(cs + hs() + ";sens");
      totref_ = totref; totT_ = totT;
      // the accessors against each other (reported whether or not the comparisons with the formulas passed)
      check_accessors(b, k0, false);
    }

    // ---- images: uniform, labelled, uniform with single-voxel deviations
    std::vector<int> imgs = { 0, 1 };
    {
      const bool th = ctx.thorough();
      const int step = c.geo == 0 ? (th ? 1 : 8) : (th ? 13 : 61);
      for (int j = 0; j < w.nvox; j += step)
        for (int k = 0; k < 3; ++k)
          if (k == 2 || (th && (k == 0 || c.geo == 0))) imgs.push_back(2 + 3 * j + k);
    }
    if (hist()) imgs = { 1, 2 + 3 * (w.nvox / 2) + 2 }; // labelled image; uniform with the central voxel doubled
    if (only_img >= 0) imgs = { (int)only_img };
    for (int img : imgs)
      {
        run_image(b, ref, dat, img, balanced);
      }
  }

  void run_image(Built& b, const Ref& ref, int dat, int img, bool balanced)
  {
    const std::vector<double> lam = image_by_id(w, img);
    const std::vector<double> d = ref.denom(lam);
    std::string why;
    ctx.count("cases_before_screen");
    if (!screen_ok(w, m, ref, d, why)) { ctx.count("screened_out"); ctx.count("screened:" + why); return; }
    const std::string k = kase(dat, img);
    ctx.current(key("any"), k);
    ctx.count("evaluations");
    ctx.nontrivial(k);
    const int ns = c.ns;
    shared_ptr<Vox> est = to_image(w, lam);
    shared_ptr<Target> out(w.im->get_empty_copy());
    std::string what;
    auto guarded = [&](const std::string& clause, const std::function<void()>& f) -> bool {
      if (small::throws(f, &what))
        {
          ctx.violation(key(clause, "kind=exception"), k, clause + " threw: " + what.substr(0, 300));
          ctx.digest("exc:" + what);
          return false;
        }
      return true;
    };

    // ---- value
    {
      double Ltot = 0, Ttot = 0, Lsum_impl = 0;
      bool prim_ok = true; // derived clauses (sum over subsets, full-data call) are only reported when the per-subset comparison passed
      Ltot = ref.value(d, -1, Ttot);
      bool ok = true;
      for (int S = 0; S < ns && ok; ++S)
        {
          double v = 0;
          ok = guarded("value", [&] { v = b.obj->compute_objective_function_without_penalty(*est, S); });
          if (!ok) break;
          Lsum_impl += v;
          if (balanced)
            {
              double T = 0; const double L = ref.value(d, S, T);
              prim_ok &= check("value", kase(dat, img, "S=" + std::to_string(S)), { v }, { L }, { T });
            }
          // penalised value = unpenalised - penalty/num_subsets
          double vp = 0, pen = 0;
          if (guarded("value_penalised", [&] { vp = b.obj->compute_objective_function(*est, S); pen = b.prior->compute_value(*est); }))
            check("prior_share;q=value", kase(dat, img, "S=" + std::to_string(S)), { vp }, { v - pen / ns }, { std::fabs(v) + std::fabs(pen) });
        }
      if (ok)
        {
          double vall = 0;
          if (guarded("value", [&] { vall = b.obj->compute_objective_function_without_penalty(*est); }))
            {
              if (prim_ok) check("value_full", k, { vall }, { Ltot }, { Ttot });
              if (prim_ok) check("sum_over_subsets;q=value", k, { Lsum_impl }, { Ltot }, { Ttot });
            }
        }
    }
    // ---- gradient, gradient + sensitivity
    {
      std::vector<double> gsum(w.nvox, 0.0), gssum(w.nvox, 0.0), gref, gT, gsref, gsT, sref, sT;
      bool ok = true, g_ok = true, gs_ok = true;
      for (int S = 0; S < ns && ok; ++S)
        {
          std::vector<double> g, gs;
          ok = guarded("gradient", [&] { b.obj->compute_sub_gradient_without_penalty(*out, *est, S); g = from_image(*out); })
               && guarded("gradient_plus_sensitivity",
                          [&] { b.obj->compute_sub_gradient_without_penalty_plus_sensitivity(*out, *est, S); gs = from_image(*out); });
          if (!ok) break;
          for (int j = 0; j < w.nvox; ++j) { gsum[j] += g[j]; gssum[j] += gs[j]; }
          const std::string kS = kase(dat, img, "S=" + std::to_string(S));
          if (balanced)
            {
              ref.gradient(d, S, false, gref, gT);
              g_ok &= check("gradient", kS, g, gref, gT);
              ref.gradient(d, S, true, gsref, gsT);
              gs_ok &= check("gradient_plus_sensitivity", kS, gs, gsref, gT);
              // (gradient + sens) - gradient == P_S^T n
              ref.sens_data_bins(S, sref, sT);
              std::vector<double> diff(w.nvox);
              for (int j = 0; j < w.nvox; ++j) diff[j] = gs[j] - g[j];
              const bool pm_ok = !(g_ok && gs_ok) || check("plus_sensitivity_minus_gradient", kS, diff, sref, gT);
              if (pm_ok && g_ok && gs_ok && c.usub && (!w.tof || b.obj->use_tofsens))
                check("plus_sensitivity_minus_gradient_vs_get_subset_sensitivity", kS, diff, from_image(b.obj->get_subset_sensitivity(S)), gT);
            }
          // penalised subset gradient = unpenalised - prior gradient / num_subsets
          std::vector<double> gp, pg;
          if (guarded("gradient_penalised", [&] {
                b.obj->compute_sub_gradient(*out, *est, S); gp = from_image(*out);
                shared_ptr<Target> pgi(w.im->get_empty_copy()); b.prior->compute_gradient(*pgi, *est); pg = from_image(*pgi); }))
            {
              std::vector<double> e(w.nvox), T(w.nvox);
              for (int j = 0; j < w.nvox; ++j) { e[j] = g[j] - pg[j] / ns; T[j] = std::fabs(g[j]) + std::fabs(pg[j]) + (balanced ? gT[j] : 0); }
              check("prior_share;q=gradient", kS, gp, e, T);
            }
        }
      if (ok)
        {
          ref.gradient(d, -1, false, gref, gT);
          if (g_ok) check("sum_over_subsets;q=gradient", k, gsum, gref, gT);
          ref.gradient(d, -1, true, gsref, gsT);
          if (gs_ok) check("sum_over_subsets;q=gradient_plus_sensitivity", k, gssum, gsref, gT);
          std::vector<double> gall;
          if (guarded("gradient", [&] { b.obj->compute_gradient_without_penalty(*out, *est); gall = from_image(*out); }))
            if (g_ok) check("gradient_full", k, gall, gref, gT);
        }
    }
    // ---- Hessian x v and approximate Hessian x v
    std::vector<int> vecs = { 0, 1 };
    if (img <= 1 && !hist())
      {
        const bool th = ctx.thorough();
        const int step = c.geo == 0 ? (th ? 1 : 6) : (th ? 11 : 61);
        for (int j = 0; j < w.nvox; j += step) vecs.push_back(2 + j);
      }
    if (only_vec >= 0) vecs = { (int)only_vec };
    // approximate Hessian needs y>0 wherever P v > 0 (n^2 (Pv)/y is otherwise undefined and truncated at max_quotient)
    for (int vid : vecs)
      {
        const std::vector<double> v = vec_by_id(w, vid);
        shared_ptr<Vox> vin = to_image(w, v);
        const std::string kv = "v=" + std::to_string(vid);
        std::vector<double> pv = small::mulP(w.P, v);
        for (int acc = 0; acc < 2; ++acc)
          {
            // accumulate_*: output += H v ; start from 0 and from a non-zero image
            if (acc == 1 && vid > 1) continue;
            const double start = acc ? 3.0 : 0.0;
            std::vector<double> hsum(w.nvox, 0.0), href, hT;
            bool ok = true, h_ok = true;
            for (int S = 0; S < ns && ok; ++S)
              {
                std::vector<double> h;
                ok = guarded("hessian", [&] {
                  out->fill((float)start);
                  if (b.obj->accumulate_sub_Hessian_times_input_without_penalty(*out, *est, *vin, S) != Succeeded::yes) error("returned Succeeded::no");
                  h = from_image(*out); });
                if (!ok) break;
                for (int j = 0; j < w.nvox; ++j) { h[j] -= start; hsum[j] += h[j]; }
                const std::string kS = kase(dat, img, kv + ";acc=" + std::to_string(acc) + ";S=" + std::to_string(S));
                if (balanced)
                  {
                    ref.hessian(d, v, S, href, hT);
                    for (auto& t : hT) t += start;
                    h_ok &= check("hessian", kS, h, href, hT);
                  }
                if (acc == 0)
                  {
                    // penalised: H v - (prior Hessian x v)/num_subsets
                    std::vector<double> hp, ph;
                    if (guarded("hessian_penalised", [&] {
                          out->fill(0.F);
                          if (b.obj->accumulate_sub_Hessian_times_input(*out, *est, *vin, S) != Succeeded::yes) error("returned Succeeded::no");
                          hp = from_image(*out);
                          shared_ptr<Target> pi(w.im->get_empty_copy());
                          b.prior->accumulate_Hessian_times_input(*pi, *est, *vin); ph = from_image(*pi); }))
                      {
                        std::vector<double> e(w.nvox), T(w.nvox);
                        for (int j = 0; j < w.nvox; ++j) { e[j] = h[j] - ph[j] / ns; T[j] = std::fabs(h[j]) + std::fabs(ph[j]); }
                        check("prior_share;q=hessian", kS, hp, e, T);
                      }
                  }
              }
            if (ok)
              {
                ref.hessian(d, v, -1, href, hT);
                if (h_ok) check("sum_over_subsets;q=hessian", kase(dat, img, kv), hsum, href, hT);
                if (acc == 0 && h_ok)
                  {
                    std::vector<double> hall;
                    if (guarded("hessian", [&] {
                          out->fill(0.F);
                          if (b.obj->accumulate_Hessian_times_input_without_penalty(*out, *est, *vin) != Succeeded::yes) error("returned Succeeded::no");
                          hall = from_image(*out); }))
                      check("hessian_full", kase(dat, img, kv), hall, href, hT);
                  }
              }
          }
        // approximate Hessian (does not depend on the image: only for the first two images)
        if (img > 1) continue;
        bool defined = true;
        for (int i = 0; i < w.nb && defined; ++i)
          if (m.inseg[i] && pv[i] > 0 && !(ref.y_raw[i] > 0)) defined = false;
        // quotient n^2 (Pv)/y stays below max_quotient
        for (int i = 0; i < w.nb && defined; ++i)
          if (m.inseg[i] && pv[i] > 0 && pv[i] * m.n_raw[i] * m.n_raw[i] > 2000.0 * ref.y_raw[i]) defined = false;
        if (!defined) { ctx.count("approx_hessian_undefined_skipped"); continue; }
        {
          std::vector<double> hsum(w.nvox, 0.0), href, hT;
          bool ok = true, ah_ok = true;
          for (int S = 0; S < ns && ok; ++S)
            {
              std::vector<double> h;
              ok = guarded("approx_hessian", [&] {
                out->fill(0.F);
                if (b.obj->add_multiplication_with_approximate_sub_Hessian_without_penalty(*out, *vin, S) != Succeeded::yes) error("returned Succeeded::no");
                h = from_image(*out); });
              if (!ok) break;
              for (int j = 0; j < w.nvox; ++j) hsum[j] += h[j];
              const std::string kS = kase(dat, img, kv + ";S=" + std::to_string(S));
              if (balanced)
                {
                  ref.approx_hessian(v, S, href, hT);
                  ah_ok &= check("approx_hessian", kS, h, href, hT);
                }
              std::vector<double> hp, ph;
              if (guarded("approx_hessian_penalised", [&] {
                    out->fill(0.F);
                    if (b.obj->add_multiplication_with_approximate_sub_Hessian(*out, *vin, S) != Succeeded::yes) error("returned Succeeded::no");
                    hp = from_image(*out);
                    shared_ptr<Target> pi(w.im->get_empty_copy());
                    b.prior->add_multiplication_with_approximate_Hessian(*pi, *vin); ph = from_image(*pi); }))
                {
                  std::vector<double> e(w.nvox), T(w.nvox);
                  for (int j = 0; j < w.nvox; ++j) { e[j] = h[j] - ph[j] / ns; T[j] = std::fabs(h[j]) + std::fabs(ph[j]); }
                  check("prior_share;q=approx_hessian", kS, hp, e, T);
                }
            }
          if (ok)
            {
              ref.approx_hessian(v, -1, href, hT);
              if (ah_ok) check("sum_over_subsets;q=approx_hessian", kase(dat, img, kv), hsum, href, hT);
            }
        }
      }
    // ---- the sensitivity accessors after the value / gradient / Hessian requests of this case
    check_accessors(b, k, true);
  }
};

// ------------------------------------------------------------------------------------------------ H part: orders of first use
enum Req { RV = 0, RG, RGS, RS, RH, RAH, RSA, NREQ };
const char* REQN[] = { "value", "gradient", "gradient_plus_sensitivity", "subset_sensitivity", "hessian", "approx_hessian", "add_subset_sensitivity" };
const char* SUPN[] = { "recomputed", "filename_1", "file", "subset_files" };

struct OrderOutcome
{
  std::string setup_exc;
  std::vector<std::vector<double>> res;
  std::vector<std::string> exc;
  std::vector<char> done, threw;
  // accessor snapshots per state of the history: slot 0 after set_up, slot k after the k-th request of the order
  // (only up to the first request that throws)
  std::vector<std::vector<double>> acc_total, acc_sum;
  std::vector<char> acc_sum_null; // some get_subset_sensitivity_sptr(s) was a null pointer
  OrderOutcome() : res(NREQ), exc(NREQ), done(NREQ, 0), threw(NREQ, 0) {}
};

int g_file_counter = 0;

struct HRun
{
  vmc::Ctx& ctx;
  const World& w;
  Cfg c;
  int supply, poison;
  bool fresh_matrix = false;
  Model m;
  std::vector<double> yraw, lam, v, d;
  Ref ref;
  std::string cs;
  std::string sens_file, subsens_pattern;
  bool files_ok = true;
  std::map<std::string, OrderOutcome> cache; // baseline per config (this object lives for one unit)
  std::set<std::string> states;

  HRun(vmc::Ctx& ctx_, const World& w_, const Cfg& c_, int supply_, int poison_)
      : ctx(ctx_), w(w_), c(c_), supply(supply_), poison(poison_), m(make_model(w_, c_)), yraw(data_by_id(w_, m, 2)), lam(image_by_id(w_, 1)),
        v(vec_by_id(w_, 1)), ref(w_, c, m, yraw)
  {
    d = ref.denom(lam);
    cs = c.str() + ";supply=" + std::to_string(supply) + ";poison=" + std::to_string(poison);
  }
  void set_fresh_matrix(bool f) { fresh_matrix = f; cs += std::string(";mx=") + (f ? "1" : "0"); }

  // write (subset) sensitivities with an ordinary recompute run so that they can be supplied
  void prepare_files()
  {
    if (supply < 2) return;
    const std::string base = ctx.tmpdir + "/c05_sens_" + std::to_string(ctx.shard) + "_" + std::to_string((long)getpid()) + "_" + std::to_string(g_file_counter++);
    Built b = build(w, c, m, yraw, false);
    b.obj->set_recompute_sensitivity(true);
    if (supply == 2) { sens_file = base + ".hv"; b.obj->set_sensitivity_filename(sens_file); }
    else { subsens_pattern = base + "_%d.hv"; b.obj->set_subsensitivity_filenames(subsens_pattern); }
    std::string what; bool failed = false;
    if (small::throws([&] { failed = b.obj->set_up(w.im) != Succeeded::yes; }, &what) || failed) files_ok = false;
  }

  std::string canon(const ObjFn& o, unsigned donemask) const
  {
    auto byte = [](const bool& f) { unsigned char u; std::memcpy(&u, &f, 1); return (int)(u != 0); };
    std::ostringstream s;
    s << donemask << ":" << byte(o.distributable_computation_already_setup) << byte(o.latest_setup_distributable_computation_was_with_orig_projectors)
      << byte(o.norm_already_setup) << (byte(o.norm_already_setup) ? byte(o.latest_setup_norm_was_with_orig_data) : 0) << (o.recompute_sensitivity ? 1 : 0);
    return s.str();
  }

  OrderOutcome execute(const std::vector<int>& order)
  {
    OrderOutcome oc;
    const double t0 = ctx.elapsed();
    Built b = build(w, c, m, yraw, false, poison, !fresh_matrix);
    ctx.count("us_H_build", (long long)((ctx.elapsed() - t0) * 1e6));
    if (supply == 0) b.obj->set_recompute_sensitivity(true);
    else
      {
        b.obj->set_recompute_sensitivity(false);
        if (supply == 1) b.obj->set_sensitivity_filename("1");
        else if (supply == 2) b.obj->set_sensitivity_filename(sens_file);
        else b.obj->set_subsensitivity_filenames(subsens_pattern);
      }
    bool failed = false;
    if (small::throws([&] { failed = b.obj->set_up(w.im) != Succeeded::yes; }, &oc.setup_exc) || failed)
      {
        if (oc.setup_exc.empty()) oc.setup_exc = "set_up returned Succeeded::no";
        return oc;
      }
    ctx.count(std::string("us_H_setup_") + SUPN[supply], (long long)((ctx.elapsed() - t0) * 1e6));
    shared_ptr<Vox> est = to_image(w, lam), vin = to_image(w, v);
    shared_ptr<Target> out(w.im->get_empty_copy());
    unsigned mask = 0;
    states.insert(canon(*b.obj, mask));
    auto snapshot = [&] {
      oc.acc_total.push_back(is_null_ptr(b.obj->sensitivity_sptr) ? std::vector<double>() : from_image(b.obj->get_sensitivity()));
      std::vector<double> sum(w.nvox, 0.0);
      bool null = false;
      for (int S = 0; S < c.ns; ++S)
        {
          if (is_null_ptr(b.obj->get_subset_sensitivity_sptr(S))) { null = true; break; }
          const std::vector<double> s = from_image(b.obj->get_subset_sensitivity(S));
          for (int j = 0; j < w.nvox; ++j) sum[j] += s[j];
        }
      oc.acc_sum.push_back(sum);
      oc.acc_sum_null.push_back(null ? 1 : 0);
    };
    snapshot();
    bool any_threw = false;
    for (int r : order)
      {
        ctx.count("transitions");
        const double t1 = ctx.elapsed();
        oc.done[r] = 1;
        std::string what;
        const bool t = small::throws([&] {
          switch (r)
            {
            case RV: oc.res[r] = { b.obj->compute_objective_function_without_penalty(*est, 0) }; break;
            case RG: b.obj->compute_sub_gradient_without_penalty(*out, *est, 0); oc.res[r] = from_image(*out); break;
            case RGS: b.obj->compute_sub_gradient_without_penalty_plus_sensitivity(*out, *est, 0); oc.res[r] = from_image(*out); break;
            case RS:
              if (is_null_ptr(b.obj->get_subset_sensitivity_sptr(0)))
                {
                  // happens with "sensitivity filename := 1": set_up leaves the subset sensitivities unset; dereferencing would be a null reference
                  ctx.count("subset_sensitivity_null_pointer");
                  ctx.observe(std::string("sensitivity=") + SUPN[supply] + ": get_subset_sensitivity_sptr(0) is a null pointer after set_up (get_subset_sensitivity(0) would dereference it); total sensitivity used instead");
                  oc.res[r] = from_image(b.obj->get_sensitivity());
                  for (auto& x : oc.res[r]) x /= c.ns;
                }
              else
                oc.res[r] = from_image(b.obj->get_subset_sensitivity(0));
              break;
            case RH:
              out->fill(0.F);
              if (b.obj->accumulate_sub_Hessian_times_input_without_penalty(*out, *est, *vin, 0) != Succeeded::yes) error("returned Succeeded::no");
              oc.res[r] = from_image(*out);
              break;
            case RAH:
              out->fill(0.F);
              if (b.obj->add_multiplication_with_approximate_sub_Hessian_without_penalty(*out, *vin, 0) != Succeeded::yes) error("returned Succeeded::no");
              oc.res[r] = from_image(*out);
              break;
            case RSA: out->fill(0.F); b.obj->add_subset_sensitivity(*out, 0); oc.res[r] = from_image(*out); break;
            }
        }, &what);
        if (t) { oc.threw[r] = 1; oc.exc[r] = what; any_threw = true; }
        ctx.count(std::string("us_H_req_") + REQN[r], (long long)((ctx.elapsed() - t1) * 1e6));
        mask |= 1u << r;
        states.insert(canon(*b.obj, mask));
        if (!any_threw) snapshot();
      }
    return oc;
  }

  std::string key(const std::string& clause, const std::string& extra) const
  {
    std::ostringstream o;
    o << "clause=" << clause << ";" << extra << ";sensitivity=" << SUPN[supply] << ";tof=" << (w.tof ? 1 : 0);
    return o.str();
  }

  // reference numbers of a request (balanced subsets assumed; configurations are chosen accordingly)
  bool reference(int r, bool tof_rows_for_sens, std::vector<double>& e, std::vector<double>& T) const
  {
    switch (r)
      {
      case RV: { double t = 0; const double L = ref.value(d, 0, t); e = { L }; T = { t }; return true; }
      case RG: ref.gradient(d, 0, false, e, T); return true;
      case RGS: { std::vector<double> t2; ref.gradient(d, 0, true, e, t2); ref.gradient(d, 0, false, t2, T); return true; }
      case RS:
        if (supply == 1) { e.assign(w.nvox, 1.0 / c.ns); T = e; return true; }
        if (c.usub) { ref.sensitivity(0, tof_rows_for_sens, e, T); return true; }
        ref.sensitivity(-1, tof_rows_for_sens, e, T);
        for (auto& x : e) x /= c.ns;
        T = e;
        return true;
      case RSA: ref.sensitivity(0, tof_rows_for_sens, e, T); return true;
      case RH: ref.hessian(d, v, 0, e, T); return true;
      case RAH: ref.approx_hessian(v, 0, e, T); return true;
      }
    return false;
  }

  void run_order(const std::vector<int>& order)
  {
    const std::string ostr = vmc::join(order);
    const std::string kase = cs + ";order=" + ostr;
    ctx.current(key("order_independence", "request=any"), kase);
    std::vector<int> base_order;
    for (int r = 0; r < (int)order.size(); ++r) base_order.push_back(r);
    // requests of `order` are a permutation of 0..n-1
    // every order is compared with the identity order; the identity order itself with the reversed order
    const bool is_identity = order == base_order;
    if (is_identity) std::reverse(base_order.begin(), base_order.end());
    const std::string bname = is_identity ? "rev" : "id";
    if (!cache.count(bname)) cache[bname] = execute(base_order);
    const OrderOutcome& base = cache[bname];
    OrderOutcome oc;
    if (!is_identity && cache.count("idself")) oc = cache["idself"]; // never true; kept simple: execute
    oc = execute(order);
    ctx.count("traces_validated_against_impl");
    ctx.count("evaluations");
    ctx.nontrivial(kase);
    if (!oc.setup_exc.empty() || !base.setup_exc.empty())
      {
        if (oc.setup_exc != base.setup_exc)
          ctx.violation(key("order_independence", "request=set_up;kind=exception"), kase, "set_up outcome differs between two identical constructions: '" + oc.setup_exc + "' vs '" + base.setup_exc + "'");
        else
          ctx.count("rejected_configs");
        ctx.digest("setup:" + oc.setup_exc);
        return;
      }
    const bool tof_rows_for_sens = !w.tof || c.tofsens || c.norm == 4;
    // ---- accessor invariants in every state of this history: get_sensitivity() == P^T n 1 (all ones when the sensitivity is forced to 1),
    //      sum_s get_subset_sensitivity(s) == get_sensitivity(); only the first state that breaks one of them is reported, named by the
    //      step that led to it (set_up or the request)
    {
      std::vector<double> tref, tT;
      if (supply == 1) { tref.assign(w.nvox, 1.0); tT = tref; }
      else ref.sensitivity(-1, tof_rows_for_sens, tref, tT);
      bool total_reported = false, sum_reported = false;
      for (size_t slot = 0; slot < oc.acc_total.size(); ++slot)
        {
          const std::string after = std::string("usub=") + std::to_string(c.usub) + ";after=" + (slot == 0 ? "set_up" : REQN[order[slot - 1]]);
          ctx.count("accessor_invariant_checks");
          if (oc.acc_total[slot].empty())
            {
              ctx.count("total_sensitivity_null_pointer");
              continue;
            }
          ctx.digest("acc:" + dg(oc.acc_total[slot]));
          ctx.count("comparisons");
          Cmp ct = compare(oc.acc_total[slot], tref, tT, CTOL, 2 * SMALLNUM);
          if (ct.bad && !total_reported)
            {
              total_reported = true;
              ctx.violation(key("history_get_sensitivity_vs_definition", after), kase, "get_sensitivity() in the state reached " + after + ": " + cmpmsg(ct));
            }
          if (oc.acc_sum_null[slot]) { ctx.count("accessor_sum_skipped_null_subset_sensitivity"); continue; }
          ctx.count("comparisons");
          Cmp cu = compare(oc.acc_sum[slot], oc.acc_total[slot], tT, CTOL, 0.0);
          if (cu.bad && !sum_reported)
            {
              sum_reported = true;
              ctx.violation(key("history_sum_of_get_subset_sensitivity_vs_get_sensitivity", after), kase,
                            "sum over subsets of get_subset_sensitivity(s) against get_sensitivity() in the state reached " + after + ": " + cmpmsg(cu));
            }
        }
    }
    for (size_t pos = 0; pos < order.size(); ++pos)
      {
        const int r = order[pos];
        const std::string posn = pos == 0 ? "first" : "later";
        if (oc.threw[r])
          {
            ctx.digest(std::string(REQN[r]) + ":exc:" + oc.exc[r]);
            if (!base.threw[r])
              ctx.violation(key("order_independence", std::string("request=") + REQN[r] + ";kind=exception;position=" + posn), kase,
                            std::string(REQN[r]) + " threw '" + oc.exc[r].substr(0, 200) + "' in this order of first use but returned numbers in order " + vmc::join(base_order));
            else
              {
                ctx.count("requests_throwing_in_both_orders");
                ctx.observe(std::string("history part: ") + REQN[r] + " with sensitivity=" + SUPN[supply] + " throws in this order and in the order it is compared with: " + oc.exc[r].substr(0, 160));
              }
            continue;
          }
        ctx.digest(std::string(REQN[r]) + ":" + dg(oc.res[r]));
        if (base.threw[r])
          {
            // report with the throwing order as the case
            size_t bpos = 0;
            for (size_t q = 0; q < base_order.size(); ++q) if (base_order[q] == r) bpos = q;
            ctx.violation(key("order_independence", std::string("request=") + REQN[r] + ";kind=exception;position=" + (bpos == 0 ? "first" : "later")),
                          cs + ";order=" + vmc::join(base_order),
                          std::string(REQN[r]) + " threw '" + base.exc[r].substr(0, 200) + "' in this order of first use but returned numbers in order " + ostr);
            continue;
          }
        // against the formulas
        std::vector<double> e, T;
        if (reference(r, tof_rows_for_sens, e, T))
          {
            ctx.count("comparisons");
            Cmp cm = compare(oc.res[r], e, T, CTOL, 2 * SMALLNUM);
            if (cm.bad) ctx.violation(key(std::string("history_") + REQN[r], "position=" + posn), kase, std::string(REQN[r]) + " after this history: " + cmpmsg(cm));
            // against the other order
            Cmp co = compare(oc.res[r], base.res[r], T, 4.0, 0.0);
            if (co.bad)
              ctx.violation(key("order_independence", std::string("request=") + REQN[r] + ";kind=numbers_differ;position=" + posn), kase,
                            std::string(REQN[r]) + " differs from its result in order " + vmc::join(base_order) + ": " + cmpmsg(co));
            if (oc.res[r] == base.res[r]) ctx.count("results_bit_identical_to_base_order"); else ctx.count("results_not_bit_identical_to_base_order");
          }
      }
  }
};

void run_H_unit(vmc::Ctx& ctx, const Cfg& c, int supply, int poison, int mx, int nreq, int first, const std::vector<int>* only_order = nullptr)
{
  auto w = world(c.geo, c.sym);
  HRun h(ctx, *w, c, supply, poison);
  h.set_fresh_matrix(mx != 0);
  h.prepare_files();
  if (!h.files_ok) { ctx.count("rejected_configs"); return; }
  if (only_order) { h.run_order(*only_order); }
  else
    {
      std::vector<int> order;
      for (int r = 0; r < nreq; ++r) order.push_back(r);
      do
        {
          if (order[0] != first) continue;
          h.run_order(order);
        }
      while (std::next_permutation(order.begin(), order.end()));
    }
  ctx.count("states", (long long)h.states.size());
  ctx.maxi("history_depth_completed", nreq);
}

} // namespace

int main(int argc, char** argv)
{
  vmc::Ctx ctx(argc, argv, "C05");
  small::quiet();
  ctx.rule = "E: every configuration {geometry x matrix symmetries x additive x normalisation x zero_seg0_end_planes x max_segment x "
             "use_subset_sensitivities x num_subsets} x data set x image; a case is non-trivial if it passes the threshold screen; "
             "distinct = distinct (configuration,data,image) strings. H: every order of first use x sensitivity supply x poison, with "
             "use_subset_sensitivities off as well as on when the sensitivity is recomputed with >= 2 subsets. Accessor invariants "
             "(get_sensitivity() == P^T n 1; sum_s get_subset_sensitivity(s) == get_sensitivity()) are evaluated after set_up and after the "
             "requests of every E case and in every state (after set_up and after each request) of every H order. "
             "R: re-set-up histories (same space in both tiers): object built for a previous configuration -> set_up -> [use: value, gradient, "
             "gradient+sensitivity, Hessian product, sensitivities of every subset] -> [one setter: additive term / normalisation / "
             "zero_seg0_end_planes / max_segment_num_to_process / num_subsets / use_subset_sensitivities, from every other legal previous value] -> "
             "second set_up of the SAME object, then all E comparisons (sensitivities, accessors, value, gradient, gradient+sensitivity, Hessian "
             "products, prior share, sums over subsets) against the formulas for the CURRENT configuration; a history is distinct by "
             "(configuration, setter, previous value, used)";
  ctx.assume("tolerance: |impl-ref| <= (64*eps_float + 2e-6)*sum|terms| per element, reference in double on the explicit matrix P "
             "(rows of ProjMatrixByBinUsingRayTracing with all symmetries off, z clipped to the image)");
  ctx.assume("2e-6 share: divide_and_truncate/accumulate_loglikelihood treat numerators <= 1e-6*max(viewgram) as zero");
  ctx.assume("screen from inputs only: y_b>0 requires P lambda+a>0 and y_b <= 2000*(P lambda+a), y_b <= 2000*ybar_b (max_quotient=10000)");
  ctx.assume("subset S = views with (view-min_view) mod num_subsets == S; per-subset formulas only for num_subsets that STIR reports as balanced; "
             "otherwise only the sum over subsets is compared");
  ctx.assume("use_subset_sensitivities=0: subset sensitivity = total/num_subsets as documented");
  ctx.assume("accessor invariants: sum_s get_subset_sensitivity(s) against get_sensitivity() within 64*eps_float*(P^T n 1) per element (both float "
             "arrays of the implementation); in the H part they are not evaluated after a request that threw, and the subset sum is skipped when "
             "a subset sensitivity pointer is null (sensitivity forced to 1)");

  if (ctx.replaying())
    {
      auto m = vmc::kv(ctx.replay);
      Cfg c = Cfg::parse(m);
      if (m.count("order"))
        {
          std::vector<int> order = vmc::ints(m["order"]);
          run_H_unit(ctx, c, atoi(m["supply"].c_str()), atoi(m["poison"].c_str()), atoi(m["mx"].c_str()), (int)order.size(), order.empty() ? 0 : order[0], &order);
          return ctx.finish();
        }
      auto w = world(c.geo, c.sym);
      ERun r(ctx, *w, c);
      if (m.count("rs")) { r.rs = atoi(m["rs"].c_str()); r.pv = atoi(m["pv"].c_str()); r.used = atoi(m["used"].c_str()); }
      if (m.count("dat")) r.only_dat = atol(m["dat"].c_str());
      if (m.count("img")) r.only_img = atol(m["img"].c_str());
      if (m.count("v")) r.only_vec = atol(m["v"].c_str());
      r.run();
      return ctx.finish();
    }

  uint64_t unit = 0;
  const int ngeo = ctx.thorough() ? NGEO : 3; // quick: the two non-TOF geometries and a reduced slice of the TOF geometry
  const int max_views[NGEO] = { 4, 6, 4, 8 };
  for (int gi = 0; gi < ngeo; ++gi)
    {
      const Geo& g = GEOS[gi];
      const int max_seg = g.maxd; // span 1: segments -maxd..maxd ; span 3 handled below
      for (int sym = 0; sym < 2; ++sym)
        for (int add = 0; add < 3; ++add)
          for (int norm = 0; norm < (g.ntof ? 5 : 4); ++norm)
            for (int zero = 0; zero < 2; ++zero)
              for (int mseg = 0; mseg <= max_seg; ++mseg)
                for (int usub = 0; usub < 2; ++usub)
                  for (int ns = 1; ns <= max_views[gi]; ++ns)
                    for (int tofsens = 0; tofsens < (g.ntof ? 2 : 1); ++tofsens)
                      {
                        if (!ctx.thorough() && gi == 1)
                          {
                            // quick tier: reduced product on the second geometry
                            if (add == 1 || norm == 1 || norm == 2 || mseg == 1 || ns == 4 || ns == 5) continue;
                          }
                        if (!ctx.thorough() && gi == 2)
                          {
                            // quick tier, TOF geometry: symmetries on, additive none/labelled, normalisation none / non-TOF factors / TOF-dependent
                            // factors, all segments, use_subset_sensitivities on and (with 2 subsets) off, 1 and 2 subsets, TOF sensitivities off and on
                            if (sym == 0 || add == 1 || norm == 1 || norm == 3 || zero == 1 || mseg != max_seg || (usub == 0 && ns < 2) || ns > 2) continue;
                          }
                        if (!ctx.mine(unit++)) continue;
                        if (ctx.expired()) goto done;
                        auto w = world(gi, sym);
                        if (mseg > w->max_seg) continue;
                        Cfg c; c.geo = gi; c.sym = sym; c.add = add; c.norm = norm; c.zero = zero; c.mseg = mseg; c.usub = usub; c.ns = ns; c.tofsens = tofsens;
                        const double t0 = ctx.elapsed();
                        ERun r(ctx, *w, c);
                        r.run();
                        ctx.count(std::string("cpu_ms_E_") + g.name, (long long)((ctx.elapsed() - t0) * 1000));
                        ctx.count("configurations");
                      }
    }
  // ---- R part: re-set-up histories; the same bounded space in both tiers. unit = (current configuration, setter, previous value, used)
  {
    std::vector<Cfg> targets;
    for (int add : { 0, 2 })
      for (int norm : { 0, 2 })
        for (int zero = 0; zero < 2; ++zero)
          for (int mseg = 0; mseg < 2; ++mseg)
            for (int usub = 0; usub < 2; ++usub)
              for (int ns : { 1, 2, 4 })
                {
                  Cfg c; c.geo = 0; c.sym = 0; c.add = add; c.norm = norm; c.zero = zero; c.mseg = mseg; c.usub = usub; c.ns = ns;
                  targets.push_back(c);
                }
    for (int tofsens = 0; tofsens < 2; ++tofsens)
      for (int norm : { 2, 4 })
        {
          Cfg c; c.geo = 2; c.sym = 1; c.add = 2; c.norm = norm; c.zero = 0; c.mseg = GEOS[2].maxd; c.usub = 1; c.ns = 2; c.tofsens = tofsens;
          targets.push_back(c);
        }
    for (const Cfg& c : targets)
      for (int rs = 0; rs < NRS; ++rs)
        {
          // every other legal value of the field as the previous one
          std::vector<int> pvs;
          const bool tofg = GEOS[c.geo].ntof != 0;
          switch (rs)
            {
            case RS_NONE: pvs = { 0 }; break;
            case RS_ADD: for (int v = 0; v < 3; ++v) if (v != c.add) pvs.push_back(v); break;
            case RS_NORM: for (int v = 0; v < (tofg ? 5 : 4); ++v) if (v != c.norm) pvs.push_back(v); break;
            case RS_ZERO: pvs = { 1 - c.zero }; break;
            case RS_MSEG: for (int v = 0; v <= GEOS[c.geo].maxd; ++v) if (v != c.mseg) pvs.push_back(v); break;
            case RS_NS: for (int v = 1; v <= max_views[c.geo]; ++v) if (v != c.ns) pvs.push_back(v); break;
            case RS_USUB: pvs = { 1 - c.usub }; break;
            }
          for (int pv : pvs)
            for (int used = 0; used < 2; ++used)
              {
                if (rs != RS_NONE && used == 0) continue; // a setter follows a period of use; the plain second set_up is run both ways
                if (!ctx.mine(unit++)) continue;
                if (ctx.expired()) goto done;
                auto w = world(c.geo, c.sym);
                const double t0 = ctx.elapsed();
                ERun r(ctx, *w, c);
                r.rs = rs; r.pv = pv; r.used = used;
                r.run();
                ctx.count(std::string("cpu_ms_R_") + GEOS[c.geo].name, (long long)((ctx.elapsed() - t0) * 1000));
                ctx.count("re_set_up_units");
              }
        }
  }
  // ---- H part: units = (configuration, sensitivity supply, poison pattern, matrix sharing, first request)
  {
    struct HC { int geo, sym, add, norm, ns, tofsens, mx, nreq0; };
    std::vector<HC> hcs;
    const bool th = ctx.thorough();
    if (!th)
      {
        hcs.push_back({ 0, 0, 0, 0, 1, 0, 0, 6 });
        hcs.push_back({ 0, 0, 2, 2, 2, 0, 0, 6 });
      }
    else
      {
        for (int sym = 0; sym < 2; ++sym)
          for (int add : { 0, 2 })
            for (int norm : { 0, 2, 3 })
              for (int ns = 1; ns <= 2; ++ns) hcs.push_back({ 0, sym, add, norm, ns, 0, 0, 6 });
        hcs.push_back({ 0, 1, 2, 2, 2, 0, 1, 6 }); // fresh matrices with the default cache
        for (int sym = 0; sym < 2; ++sym)
          for (int add : { 0, 2 })
            for (int norm : { 0, 2, 4 })
              for (int ns = 1; ns <= 2; ++ns)
                for (int tofsens = 0; tofsens < 2; ++tofsens)
                  // 7 requests (incl. add_subset_sensitivity) on the simplest TOF configurations when the sensitivity is recomputed
                  hcs.push_back({ 2, sym, add, norm, ns, tofsens, 0, (sym == 0 && add == 0 && ns == 1) ? 7 : 6 });
      }
    static const int POISON[3] = { 0x00, 0xAA, 0xFF };
    for (const HC& hc : hcs)
      for (int supply = 0; supply < 4; ++supply)
        for (int pi = 0; pi < 3; ++pi)
          {
            if (hc.mx && pi != 1) continue;
            const int nreq = supply == 0 ? hc.nreq0 : 6;
            // use_subset_sensitivities: a single sensitivity (file or forced to 1) needs it off, subset files need it on; when the sensitivity
            // is recomputed both are legal: on, and (with >= 2 subsets, where it makes a difference) off
            for (int uv = 0; uv < ((supply == 0 && hc.ns >= 2) ? 2 : 1); ++uv)
            for (int first = 0; first < nreq; ++first)
              {
                if (!ctx.mine(unit++)) continue;
                if (ctx.expired()) goto done;
                Cfg c; c.geo = hc.geo; c.sym = hc.sym; c.add = hc.add; c.norm = hc.norm; c.zero = 0; c.mseg = GEOS[hc.geo].maxd; c.ns = hc.ns; c.tofsens = hc.tofsens;
                c.usub = (supply == 1 || supply == 2) ? 0 : (uv == 0 ? 1 : 0);
                const double t0 = ctx.elapsed();
                run_H_unit(ctx, c, supply, POISON[pi], hc.mx, nreq, first);
                ctx.count(std::string("cpu_ms_H_") + GEOS[hc.geo].name, (long long)((ctx.elapsed() - t0) * 1000));
                ctx.count("history_units");
              }
          }
  }
done:
  return ctx.finish();
}
