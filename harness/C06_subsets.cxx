// C06 part a - ordered subsets partition the data (exhaustive configuration enumeration).
//
// For EVERY num_views V in 1..96 (scanner with D = 2V detectors per ring, no view mashing; thorough also D = 4V
// mashed by 2) x segment range (symmetric 0, +-1, +-2; asymmetric ones obtained with reduce_segment_range) x
// TOF {1, 3 bins} x symmetry object {TrivialDataSymmetriesForViewSegmentNumbers, DataSymmetriesForBins_PET_CartesianGrid
// with each of the 2^3 combinations of the view/segment-relevant switches (90 degrees, 180 degrees, swap segment)}
// x EVERY num_subsets N in 1..V:
//
//   partition : the multiset   U_{subset 0..N-1}  U_{vs in detail::find_basic_vs_nums_in_subset(...)}
//               get_related_view_segment_numbers(vs) x {all TOF bins}       (this is exactly the loop nest of
//               ForwardProjectorByBin::forward_project(ProjData&), BackProjectorByBin::back_project, distributable_computation)
//               must contain every (segment, view, TOF bin) of the data exactly once and nothing else.
//   balanced  : PoissonLogLikelihoodWithLinearModelForMeanAndProjData::subsets_are_approximately_balanced()
//               (objective function whose back projector reports the symmetry object under test)
//               <=> the N multisets above (restricted to the segments -m..m the objective function processes)
//               have the same size; the sizes are computed from get_related_view_segment_numbers(), i.e. independently of
//               is_basic()/num_related_view_segment_numbers() used by STIR.
#include "vmc.h"
#include "stir_small.h"
#include "stir/recon_buildblock/find_basic_vs_nums_in_subsets.h"
#include "stir/recon_buildblock/DataSymmetriesForBins_PET_CartesianGrid.h"
#include "stir/TrivialDataSymmetriesForViewSegmentNumbers.h"
#include "stir/recon_buildblock/PoissonLogLikelihoodWithLinearModelForMeanAndProjData.h"
#include "stir/recon_buildblock/ProjectorByBinPairUsingSeparateProjectors.h"
#include "stir/recon_buildblock/BackProjectorByBin.h"
#include "stir/recon_buildblock/ProjMatrixByBinUsingRayTracing.h"
#include "stir/recon_buildblock/ProjectorByBinPairUsingProjMatrixByBin.h"
#include "stir/DiscretisedDensity.h"
#include "stir/RelatedViewgrams.h"
#include <memory>

using namespace stir;

// a back projector that does nothing but report a given symmetry object (what actual_subsets_are_approximately_balanced asks for)
class SymOnlyBackProjector : public BackProjectorByBin
{
public:
  explicit SymOnlyBackProjector(shared_ptr<DataSymmetriesForViewSegmentNumbers> s) : sym(std::move(s)) {}
  void set_up(const shared_ptr<const ProjDataInfo>&, const shared_ptr<const DiscretisedDensity<3, float>>&) override {}
  const DataSymmetriesForViewSegmentNumbers* get_symmetries_used() const override { return sym.get(); }
  BackProjectorByBin* clone() const override { return new SymOnlyBackProjector(sym); }
  std::string get_registered_name() const override { return "verif symmetry-only back projector"; }
  void actual_back_project(const RelatedViewgrams<float>&, const int, const int, const int, const int) override {}
  shared_ptr<DataSymmetriesForViewSegmentNumbers> sym;
};

struct SegCfg { int max_delta, lo, hi; };
// symmetric ranges first (simplest first), then the asymmetric ones
static const SegCfg segcfgs[] = { { 0, 0, 0 }, { 1, -1, 1 }, { 2, -2, 2 }, { 1, 0, 1 }, { 1, -1, 0 }, { 2, -1, 2 }, { 2, 0, 2 }, { 2, -2, 0 }, { 2, -2, 1 } };
static const int n_segcfgs = sizeof(segcfgs) / sizeof(segcfgs[0]);

// sym index: 0 trivial; 1 + (s90 | s180<<1 | sseg<<2) [+ 8*variant: variant 0 swap_s=shift_z=true, 1: both false, 2: real ray-tracing matrix object]
struct Cfg { int V = 1, tof = 0, seg = 0, sym = 0, mash = 1; int onlyN = 0; };
static std::string cfg_str(const Cfg& c, int N)
{
  return "V=" + vmc::str(c.V) + ";tof=" + vmc::str(c.tof) + ";seg=" + vmc::str(c.seg) + ";sym=" + vmc::str(c.sym) + ";mash=" + vmc::str(c.mash) + ";N=" + vmc::str(N);
}

static void run_cfg(vmc::Ctx& ctx, const Cfg& c)
{
  const SegCfg& sg = segcfgs[c.seg];
  const int R = 3;
  const int D = 2 * c.V * c.mash;
  ctx.current("part=a", cfg_str(c, c.onlyN));
  shared_ptr<ProjDataInfo> pdi;
  shared_ptr<VoxelsOnCartesianGrid<float>> image;
  shared_ptr<DataSymmetriesForViewSegmentNumbers> sym;
  shared_ptr<ProjMatrixByBinUsingRayTracing> matrix; // keeps the symmetry object alive for variant 2
  std::string symname, why;
  const int variant = c.sym == 0 ? 0 : (c.sym - 1) / 8;
  const int bits = c.sym == 0 ? 0 : (c.sym - 1) % 8;
  const bool s90 = bits & 1, s180 = bits & 2, sseg = bits & 4;
  if (small::throws(
          [&] {
            auto sc = small::cyl_scanner(D, R, c.tof ? 3 : 0);
            const int tangs = std::max(1, std::min(3, D / 2));
            pdi = small::make_pdi(sc, 1, sg.max_delta, c.V, tangs, false, c.tof ? 1 : 0);
            if (sg.lo != -sg.max_delta || sg.hi != sg.max_delta) pdi->reduce_segment_range(sg.lo, sg.hi);
            image = small::make_image(*pdi, 0, 3);
            if (c.sym == 0) { sym.reset(new TrivialDataSymmetriesForViewSegmentNumbers); }
            else if (variant < 2)
              sym.reset(new DataSymmetriesForBins_PET_CartesianGrid(pdi, image, s90, s180, sseg, variant == 0, variant == 0));
            else
              {
                matrix.reset(new ProjMatrixByBinUsingRayTracing());
                matrix->set_do_symmetry_90degrees_min_phi(s90);
                matrix->set_do_symmetry_180degrees_min_phi(s180);
                matrix->set_do_symmetry_swap_segment(sseg);
                matrix->set_do_symmetry_swap_s(true);
                matrix->set_do_symmetry_shift_z(true);
                matrix->enable_cache(false);
                matrix->set_up(pdi, image);
                sym.reset(matrix->get_symmetries_ptr()->clone());
              }
          },
          &why))
    {
      ctx.count("rejected_configs");
      ctx.observe("configuration rejected by STIR: " + cfg_str(c, 0) + " : " + why.substr(0, 160));
      return;
    }
  if (pdi->get_num_views() != c.V || pdi->get_min_segment_num() != sg.lo || pdi->get_max_segment_num() != sg.hi
      || pdi->get_num_tof_poss() != (c.tof ? 3 : 1))
    {
      ctx.count("rejected_configs");
      ctx.observe("geometry generator did not give the requested sampling: " + cfg_str(c, 0));
      return;
    }
  // effective switches (the constructor silently turns some off: odd V, V%4, TOF)
  bool e90 = false, e180 = false, eseg = false;
  if (auto p = dynamic_cast<const DataSymmetriesForBins_PET_CartesianGrid*>(sym.get()))
    { e90 = p->do_symmetry_90degrees_min_phi; e180 = p->do_symmetry_180degrees_min_phi; eseg = p->do_symmetry_swap_segment; }
  symname = c.sym == 0 ? std::string("trivial") : ("PET(90=" + vmc::str(e90) + ",180=" + vmc::str(e180) + ",seg=" + vmc::str(eseg) + ")");
  const bool asym = sg.lo != -sg.hi;
  const std::string keytail = ";sym=" + symname + ";segs=" + (asym ? "asymmetric" : "symmetric") + ";tof=" + vmc::str(c.tof);
  if (c.sym != 0 && (e90 || e180 || eseg)) ctx.count("units_with_effective_symmetry");
  if (e90) ctx.count("units_with_90deg"); if (e180 && !e90) ctx.count("units_with_180deg_only"); if (eseg) ctx.count("units_with_swap_segment");

  const int min_view = pdi->get_min_view_num(), min_tof = pdi->get_min_tof_pos_num(), ntof = pdi->get_num_tof_poss();
  const int nseg = sg.hi - sg.lo + 1;
  auto idx = [&](int s, int v, int k) { return ((s - sg.lo) * c.V + (v - min_view)) * ntof + (k - min_tof); };
  std::vector<int> cover((size_t)nseg * c.V * ntof);

  // objective function for the "balanced" clause (symmetric segment ranges only: it processes segments -m..m)
  typedef PoissonLogLikelihoodWithLinearModelForMeanAndProjData<DiscretisedDensity<3, float>> Obj;
  std::unique_ptr<Obj> obj;
  if (!asym)
    {
      obj.reset(new Obj);
      obj->proj_data_sptr = small::make_projdata(pdi);
      shared_ptr<BackProjectorByBin> bp(new SymOnlyBackProjector(sym));
      shared_ptr<ForwardProjectorByBin> fp;
      obj->projector_pair_ptr.reset(new ProjectorByBinPairUsingSeparateProjectors(fp, bp));
    }

  std::vector<ViewSegmentNumbers> rel;
  for (int N = 1; N <= c.V; ++N)
    {
      if (c.onlyN && N != c.onlyN) continue;
      const std::string kase = cfg_str(c, N);
      std::fill(cover.begin(), cover.end(), 0);
      std::vector<long> per_subset(N, 0), per_subset_seg0(N, 0);
      bool outside = false; std::string outside_what;
      long groups_gt1 = 0;
      for (int subset = 0; subset < N; ++subset)
        {
          const std::vector<ViewSegmentNumbers> basic = detail::find_basic_vs_nums_in_subset(*pdi, *sym, sg.lo, sg.hi, subset, N);
          for (const ViewSegmentNumbers& vs : basic)
            {
              sym->get_related_view_segment_numbers(rel, vs);
              if (rel.size() > 1) ++groups_gt1;
              for (const ViewSegmentNumbers& r : rel)
                {
                  if (r.segment_num() < sg.lo || r.segment_num() > sg.hi || r.view_num() < min_view || r.view_num() >= min_view + c.V)
                    {
                      if (!outside) outside_what = "subset " + vmc::str(subset) + " basic (v" + vmc::str(vs.view_num()) + ",s" + vmc::str(vs.segment_num()) + ") has related (v" + vmc::str(r.view_num()) + ",s" + vmc::str(r.segment_num()) + ")";
                      outside = true;
                      continue;
                    }
                  for (int k = min_tof; k < min_tof + ntof; ++k) ++cover[idx(r.segment_num(), r.view_num(), k)];
                  ++per_subset[subset];
                  if (r.segment_num() == 0) ++per_subset_seg0[subset];
                }
            }
        }
      ctx.count("evaluations");
      if (groups_gt1) ctx.count("evaluations_with_related_groups");
      if (N > 1 && groups_gt1) ctx.nontrivial(kase);
      // ---- partition oracle
      long missing = 0, dup = 0; std::string first_missing, first_dup;
      for (int s = sg.lo; s <= sg.hi; ++s)
        for (int v = min_view; v < min_view + c.V; ++v)
          for (int k = min_tof; k < min_tof + ntof; ++k)
            {
              const int n = cover[idx(s, v, k)];
              if (n == 0 && !missing++) first_missing = "(s" + vmc::str(s) + ",v" + vmc::str(v) + ",k" + vmc::str(k) + ")";
              if (n > 1 && !dup++) first_dup = "(s" + vmc::str(s) + ",v" + vmc::str(v) + ",k" + vmc::str(k) + ") x" + vmc::str(n);
            }
      if (missing)
        ctx.violation("clause=partition;kind=missing" + keytail, kase, vmc::str(missing) + " (segment,view,TOF) of the data are in no subset's related view/segment groups, first " + first_missing);
      if (dup)
        ctx.violation("clause=partition;kind=duplicate" + keytail, kase, vmc::str(dup) + " (segment,view,TOF) are processed more than once, first " + first_dup);
      if (outside)
        ctx.violation("clause=partition;kind=outside_data" + keytail, kase, "a related view/segment lies outside the data: " + outside_what);
      // ---- balanced oracle
      if (obj)
        for (int pass = 0; pass < (sg.hi > 0 ? 2 : 1); ++pass)
          {
            const int m = pass == 0 ? sg.hi : 0;
            obj->max_segment_num_to_process = m;
            obj->num_subsets = N;
            const bool impl = obj->subsets_are_approximately_balanced();
            const std::vector<long>& cnt = pass == 0 ? per_subset : per_subset_seg0;
            bool ref = true;
            for (int s = 1; s < N; ++s) if (cnt[s] != cnt[0]) ref = false;
            ctx.count(ref ? "balanced_true" : "balanced_false");
            if (impl != ref)
              {
                std::string counts; for (int s = 0; s < N && s < 12; ++s) counts += vmc::str(cnt[s]) + " ";
                ctx.violation(std::string("clause=balanced;reported=") + (impl ? "balanced" : "unbalanced") + keytail, kase + ";m=" + vmc::str(m),
                              "subsets_are_approximately_balanced() returns " + vmc::str(impl) + " but the viewgram counts per subset (segments -" + vmc::str(m) + ".." + vmc::str(m) + ") are " + counts);
              }
          }
      if (ctx.samples.size() < 6 && N == 3 && c.V % 12 == 0 && groups_gt1)
        {
          std::string counts; for (int s = 0; s < N; ++s) counts += vmc::str(per_subset[s]) + " ";
          ctx.sample(kase + " " + symname + " viewgrams per subset: " + counts + " groups with >1 member: " + vmc::str(groups_gt1));
        }
    }
  ctx.maxi("max_num_views", c.V);
}

int main(int argc, char** argv)
{
  vmc::Ctx ctx(argc, argv, "C06");
  small::quiet();
  ctx.rule = "part a: every (num_views 1..96, segment range, TOF 1|3 bins, symmetry object, num_subsets 1..num_views); one evaluation = one complete "
             "multiset of (segment,view,TOF) over all subsets; non-trivial = num_subsets>1 and at least one related group with >1 member";
  ctx.assume("the loop nest 'for subset: for vs in find_basic_vs_nums_in_subset: for related(vs): for all TOF bins' is what the projectors/distributable_computation execute (read in ForwardProjectorByBin.cxx, BackProjectorByBin.cxx, distributable.cxx)");
  ctx.assume("balanced clause only for symmetric segment ranges (the objective function processes segments -m..m); m in {max segment, 0}");
  ctx.assume("span 1, 3 rings, 3 tangential positions, image 5x3x3; view/segment logic does not depend on these");
  if (ctx.replaying())
    {
      auto m = vmc::kv(ctx.replay);
      Cfg c; c.V = atoi(m["V"].c_str()); c.tof = atoi(m["tof"].c_str()); c.seg = atoi(m["seg"].c_str()); c.sym = atoi(m["sym"].c_str());
      c.mash = m.count("mash") ? atoi(m["mash"].c_str()) : 1; c.onlyN = atoi(m["N"].c_str());
      run_cfg(ctx, c);
      return ctx.finish();
    }
  const bool th = ctx.thorough();
  const int nsym = 1 + 8 * (th ? 3 : 1);
  uint64_t unit = 0;
  for (int mash = 1; mash <= (th ? 2 : 1); ++mash)
    for (int V = 1; V <= 96; ++V)
      for (int tof = 0; tof < 2; ++tof)
        for (int seg = 0; seg < n_segcfgs; ++seg)
          for (int sym = 0; sym < nsym; ++sym, ++unit)
            {
              if (!ctx.mine(unit)) continue;
              if (ctx.expired()) return ctx.finish();
              Cfg c; c.V = V; c.tof = tof; c.seg = seg; c.sym = sym; c.mash = mash;
              run_cfg(ctx, c);
              ctx.count("configurations");
            }
  return ctx.finish();
}
