// C18 - multi-threaded execution gives the single-thread result under every schedule.
//
// Schedule enumeration (vomp + vompx::Explorer): every body below is executed once per schedule on FRESH
// objects under the serialising scheduler; schedules = all choice sequences with at most B preemptions
// (B iterated 0,1,2,...).  Oracle per schedule: outcome == outcome of the same body run with one thread
// (up to the re-association tolerance for float sums), no deadlock, no crash, deterministic replay.
// In the "tsan" flavour the same exploration runs under ThreadSanitizer, which only sees the
// happens-before edges OpenMP guarantees (vomp hides its own hand-offs): a race report in any explored
// schedule is a violation.
//
// Bodies (argument --body X selects one; default all):
//   L  lazily built geometry tables used concurrently from the first call (NoArcCorr: both tables, ring-diff arrays)
//   M  system-matrix cache: concurrent get_proj_matrix_elems_for_one_bin on bins sharing cache entries/locks, + clear_cache
//   D  distributable computation: gradient, value(log-likelihood), sensitivity, Hessian x v; forward/back projection of ProjData
//   P  concurrent viewgram IO on ProjDataInMemory / ProjDataFromStream
#include "vmc.h"
#include "stir_small.h"
#include "vomp/vomp.h"
#include "vomp/vomp_explore.h"
#include "stir/recon_buildblock/PoissonLogLikelihoodWithLinearModelForMeanAndProjData.h"
#include "stir/recon_buildblock/ProjectorByBinPairUsingProjMatrixByBin.h"
#include "stir/recon_buildblock/ForwardProjectorByBinUsingProjMatrixByBin.h"
#include "stir/recon_buildblock/BackProjectorByBinUsingProjMatrixByBin.h"
#include "stir/ProjDataFromStream.h"
#include "stir/DetectionPositionPair.h"
#include "stir/RelatedViewgrams.h"
#include <omp.h>
#include <sstream>
#include <iomanip>

using namespace stir;

// ------------------------------------------------------------------------------------------------ the stream seam
// Stream-backed projection data sit on a stream buffer that the harness owns: ONE shared position for reading and writing, as a file has
// (std::stringstream keeps two, and keeps them inside the uninstrumented libstdc++ where ThreadSanitizer cannot see them). Every seek,
// read and write is a schedule point of the vomp scheduler (the same entry point as STIR_VERIF_POINT), so the explorer interleaves other
// threads between a seek and the read that relies on it wherever STIR does not hold the PROJDATAFROMSTREAMIO critical section, and the
// position / content are plain memory of this (instrumented) translation unit, so unsynchronised access is a ThreadSanitizer report.
extern "C" void ucl_stir_verif_point(const char* site, const void* obj);
class SharedPositionBuf : public std::streambuf
{
  std::vector<char> data; std::streamoff pos = 0;
protected:
  pos_type seekoff(off_type off, std::ios_base::seekdir dir, std::ios_base::openmode) override
  {
    ucl_stir_verif_point("stream.seek", this);
    const std::streamoff base = dir == std::ios_base::beg ? 0 : dir == std::ios_base::cur ? pos : (std::streamoff)data.size();
    if (base + off < 0) return pos_type(off_type(-1));
    pos = base + off;
    return pos_type(pos);
  }
  pos_type seekpos(pos_type p, std::ios_base::openmode m) override { return seekoff(off_type(p), std::ios_base::beg, m); }
  std::streamsize xsgetn(char* s, std::streamsize n) override
  {
    ucl_stir_verif_point("stream.read", this);
    const std::streamsize avail = std::max<std::streamoff>(0, (std::streamoff)data.size() - pos), k = std::min(n, avail);
    if (k > 0) memcpy(s, data.data() + pos, (size_t)k);
    pos += k;
    return k;
  }
  std::streamsize xsputn(const char* s, std::streamsize n) override
  {
    ucl_stir_verif_point("stream.write", this);
    if ((std::streamoff)data.size() < pos + n) data.resize((size_t)(pos + n), 0);
    memcpy(data.data() + pos, s, (size_t)n);
    pos += n;
    return n;
  }
  int_type underflow() override { return pos < (std::streamoff)data.size() ? traits_type::to_int_type(data[(size_t)pos]) : traits_type::eof(); }
  int_type uflow() override { char c; return xsgetn(&c, 1) == 1 ? traits_type::to_int_type(c) : traits_type::eof(); }
  int_type overflow(int_type c) override { if (traits_type::eq_int_type(c, traits_type::eof())) return traits_type::not_eof(c); char ch = traits_type::to_char_type(c); xsputn(&ch, 1); return c; }
  int sync() override { return 0; }
};
struct SharedPositionStream : std::iostream
{
  SharedPositionBuf buf;
  SharedPositionStream() : std::iostream(nullptr) { this->init(&buf); }
};

// ------------------------------------------------------------------------------------------------ TSan report capture
extern "C" {
int __tsan_get_report_data(void* report, const char** description, int* count, int* stack_count, int* mop_count, int* loc_count,
                           int* mutex_count, int* thread_count, int* unique_tid_count, void** sleep_trace, unsigned long trace_size) __attribute__((weak));
int __tsan_get_report_mop(void* report, unsigned long idx, int* tid, void** addr, int* size, int* write, int* atomic, void** trace,
                          unsigned long trace_size) __attribute__((weak));
void __sanitizer_symbolize_pc(void* pc, const char* fmt, char* out_buf, unsigned long out_buf_size) __attribute__((weak));
}
static int g_race_count = 0;
static std::string g_race_desc;
extern "C" void __tsan_on_report(void* report)
{
  ++g_race_count;
  if (!g_race_desc.empty() || !__tsan_get_report_data) return;
  const char* descr = nullptr; int count, stack_count, mop_count, loc_count, mutex_count, thread_count, utid; void* sleep_trace[4];
  __tsan_get_report_data(report, &descr, &count, &stack_count, &mop_count, &loc_count, &mutex_count, &thread_count, &utid, sleep_trace, 4);
  std::string s = descr ? descr : "report";
  for (int m = 0; m < mop_count && m < 2; ++m)
    {
      int tid, size, write, atomic; void* addr; void* trace[8] = { 0 };
      __tsan_get_report_mop(report, m, &tid, &addr, &size, &write, &atomic, trace, 8);
      // first frame that is not inside the harness helpers
      char buf[512] = "?";
      for (int f = 0; f < 8 && trace[f]; ++f)
        {
          if (__sanitizer_symbolize_pc) __sanitizer_symbolize_pc(trace[f], "%f", buf, sizeof buf);
          std::string fn = buf;
          if (fn.find("std::") == 0 || fn.find("__gnu") == 0 || fn.find("operator new") != std::string::npos) continue;
          break;
        }
      std::string fn = buf;
      auto par = fn.find('(');
      if (par != std::string::npos) fn = fn.substr(0, par);
      s += std::string(m ? " vs " : ": ") + (write ? "write" : "read") + " in " + fn;
    }
  g_race_desc = s;
}

// ------------------------------------------------------------------------------------------------ helpers
static std::string fnum(double v)
{
  std::ostringstream o; o << std::setprecision(5) << v; return o.str();
}
static std::string img_sig(const DiscretisedDensity<3, float>& im)
{
  // signature robust to float re-association: values rounded to 4 significant digits relative to the maximum
  double mx = 0; for (auto it = im.begin_all(); it != im.end_all(); ++it) mx = std::max(mx, (double)std::fabs(*it));
  std::ostringstream o; o << "max=" << fnum(mx) << ":";
  if (mx == 0) return o.str();
  for (auto it = im.begin_all(); it != im.end_all(); ++it) o << (long)std::lround(*it / mx * 1e4) << ",";
  return o.str();
}
static std::string pd_sig(const ProjData& pd)
{
  auto v = small::flat(pd);
  double mx = 0; for (double x : v) mx = std::max(mx, std::fabs(x));
  std::ostringstream o; o << "max=" << fnum(mx) << ":";
  if (mx == 0) return o.str();
  for (double x : v) o << (long)std::lround(x / mx * 1e4) << ",";
  return o.str();
}
// two signatures agree if every rounded entry differs by <= 2 units (1e-4 relative to the maximum)
static bool sig_close(const std::string& a, const std::string& b)
{
  if (a == b) return true;
  {
    const auto sa = a.find("||"), sb = b.find("||");
    if (sa != std::string::npos || sb != std::string::npos)
      return sa != std::string::npos && sb != std::string::npos && sig_close(a.substr(0, sa), b.substr(0, sb)) && sig_close(a.substr(sa + 2), b.substr(sb + 2));
  }
  auto pa = a.find(':'), pb = b.find(':');
  if (pa == std::string::npos || pb == std::string::npos) return false;
  double ma = atof(a.c_str() + 4), mb = atof(b.c_str() + 4);
  if (std::fabs(ma - mb) > 2e-4 * std::max(std::fabs(ma), std::fabs(mb))) return false;
  auto va = vmc::split(a.substr(pa + 1), ','), vb = vmc::split(b.substr(pb + 1), ',');
  if (va.size() != vb.size()) return false;
  for (size_t i = 0; i < va.size(); ++i) if (std::labs(atol(va[i].c_str()) - atol(vb[i].c_str())) > 2) return false;
  return true;
}

static int g_body_threads = 1; // team size of the execution in progress (1 for the single-thread reference)
struct Body
{
  std::string name;              // e.g. "L:cyl:ops=0,1"
  int threads;
  bool exact;                    // outcome must be identical (no float re-association involved)
  std::function<std::string()> run; // builds fresh objects, runs under the current team size, returns the outcome
};

// ------------------------------------------------------------------------------------------------ body L
static std::string lazy_op(const ProjDataInfoCylindricalNoArcCorr& p, int op)
{
  std::ostringstream o;
  switch (op)
    {
    case 0: { Bin b; DetectionPositionPair<> dp(DetectionPosition<>(1, 0, 0), DetectionPosition<>(5, 1, 0)); auto s = p.get_bin_for_det_pos_pair(b, dp); o << "bin:" << (s == Succeeded::yes) << small::bin_str(b); break; }
    case 1: { DetectionPositionPair<> dp; Bin b(0, 1, 0, -1); p.get_det_pos_pair_for_bin(dp, b); o << "dp:" << dp.pos1().tangential_coord() << "," << dp.pos1().axial_coord() << "," << dp.pos2().tangential_coord() << "," << dp.pos2().axial_coord(); break; }
    case 2: { std::vector<DetectionPositionPair<>> v; Bin b(0, 2, 0, 1); p.get_all_det_pos_pairs_for_bin(v, b); o << "all:" << v.size(); for (auto& d : v) o << ";" << d.pos1().tangential_coord() << "," << d.pos1().axial_coord() << "," << d.pos2().tangential_coord() << "," << d.pos2().axial_coord(); break; }
    case 3: { Bin b(p.get_max_segment_num(), 0, 0, 0); o << "m:" << fnum(p.get_m(b)) << ",t:" << fnum(p.get_tantheta(b)); break; }
    case 4: { int seg = 0, ax = 0; auto s = p.get_segment_axial_pos_num_for_ring_pair(seg, ax, 0, 1); o << "sa:" << (s == Succeeded::yes) << "," << seg << "," << ax; break; }
    }
  return o.str();
}
static Body make_L(std::vector<int> ops, int span)
{
  Body b;
  b.name = "L:cyl8x2:span=" + std::to_string(span) + ":ops=" + vmc::join(ops);
  b.threads = (int)ops.size();
  b.exact = true;
  b.run = [ops, span]() {
    auto sc = small::cyl_scanner(8, 2);
    auto pdi = small::make_pdi(sc, span, 1);
    const auto& p = dynamic_cast<const ProjDataInfoCylindricalNoArcCorr&>(*pdi);
    std::vector<std::string> res(ops.size());
    const int nt = omp_get_max_threads();
    if (nt == 1)
      { for (size_t t = 0; t < ops.size(); ++t) res[t] = lazy_op(p, ops[t]); }
    else
      {
        vomp_region_of_interest();
#pragma omp parallel
        {
          const int t = omp_get_thread_num();
          if (t < (int)ops.size()) res[t] = lazy_op(p, ops[t]);
        }
      }
    // afterwards every table must be complete: query everything sequentially
    std::string all;
    for (auto& r : res) all += r + "|";
    for (int op = 0; op < 5; ++op) if (op != 1 || span == 1) all += lazy_op(p, op) + "|";
    return all;
  };
  return b;
}

// ------------------------------------------------------------------------------------------------ body M
static std::string row_sig(const ProjMatrixElemsForOneBin& row)
{
  ProjMatrixElemsForOneBin r = row; r.sort();
  std::ostringstream o; o << small::bin_str(r.get_bin()) << "#" << r.size() << ":";
  for (auto it = r.begin(); it != r.end(); ++it) o << it->coord1() << "," << it->coord2() << "," << it->coord3() << "=" << fnum(it->get_value()) << ";";
  return o.str();
}
static Body make_M(int cache_mode, int variant, int threads)
{
  Body b;
  b.name = "M:cache=" + std::to_string(cache_mode) + ":variant=" + std::to_string(variant) + ":t=" + std::to_string(threads);
  b.threads = threads;
  b.exact = true;
  b.run = [cache_mode, variant, threads]() {
    auto sc = small::cyl_scanner(8, 2);
    shared_ptr<const ProjDataInfo> pdi = small::make_pdi(sc, 1, 1);
    shared_ptr<const DiscretisedDensity<3, float>> im = small::make_image(*pdi);
    ProjMatrixByBinUsingRayTracing m;
    m.enable_cache(cache_mode != 0);
    m.store_only_basic_bins_in_cache(cache_mode == 2);
    m.set_up(pdi, im);
    // bins: per thread two requests; bins chosen to share basic bins / (view,segment) locks
    std::vector<std::vector<Bin>> req = {
      { Bin(0, 0, 0, 1), Bin(1, 1, 0, -1) },
      { Bin(0, 0, 0, -1), Bin(0, 0, 0, 1) },   // symmetric partner (swap s) then the same bin as thread 0
      { Bin(-1, 1, 0, 1), Bin(0, 2, 1, 1) } };
    std::vector<std::string> res(threads);
    auto work = [&](int t) {
      ProjMatrixElemsForOneBin row;
      for (auto& bin : req[t % req.size()])
        {
          if (variant == 1 && t == threads - 1) { m.clear_cache(); }
          m.get_proj_matrix_elems_for_one_bin(row, bin);
          res[t] += row_sig(row) + "/";
        }
    };
    if (omp_get_max_threads() == 1) { for (int t = 0; t < threads; ++t) work(t); }
    else
      {
        vomp_region_of_interest();
#pragma omp parallel
        { const int t = omp_get_thread_num(); if (t < threads) work(t); }
      }
    std::string all;
    for (auto& r : res) all += r + "|";
    // afterwards: every request again, sequentially (cache content must be coherent)
    ProjMatrixElemsForOneBin row;
    for (auto& v : req) for (auto& bin : v) { m.get_proj_matrix_elems_for_one_bin(row, bin); all += row_sig(row) + "/"; }
    return all;
  };
  return b;
}

// ------------------------------------------------------------------------------------------------ body D
struct ObjSetup
{
  shared_ptr<Scanner> sc; shared_ptr<ProjDataInfo> pdi; shared_ptr<VoxelsOnCartesianGrid<float>> im; shared_ptr<ProjData> data;
  shared_ptr<PoissonLogLikelihoodWithLinearModelForMeanAndProjData<DiscretisedDensity<3, float>>> obj;
};
static ObjSetup make_obj(bool cache, bool stream_data = false)
{
  ObjSetup s;
  s.sc = small::cyl_scanner(8, 2);
  s.pdi = small::make_pdi(s.sc, 1, 1);
  s.im = small::make_image(*s.pdi);
  int k = 0; for (auto it = s.im->begin_all(); it != s.im->end_all(); ++it) *it = 1.F + 0.25F * (k++ % 5);
  if (!stream_data) s.data = small::make_projdata(s.pdi);
  else
    { // measured data behind ONE shared stream position (ProjDataFromStream): every read is a seek + read under the named critical section
      shared_ptr<ExamInfo> ex(new ExamInfo); ex->imaging_modality = ImagingModality::PT;
      shared_ptr<std::iostream> str(new SharedPositionStream);
      s.data.reset(new ProjDataFromStream(ex, s.pdi, str));
    }
  { std::vector<double> v(small::all_bins(*s.pdi).size()); for (size_t i = 0; i < v.size(); ++i) v[i] = 1 + (i * 7) % 5; small::unflat(*s.data, v); }
  s.obj.reset(new PoissonLogLikelihoodWithLinearModelForMeanAndProjData<DiscretisedDensity<3, float>>());
  shared_ptr<ProjMatrixByBinUsingRayTracing> m(new ProjMatrixByBinUsingRayTracing());
  m->enable_cache(cache);
  shared_ptr<ProjectorByBinPair> pp(new ProjectorByBinPairUsingProjMatrixByBin(m));
  s.obj->set_proj_data_sptr(s.data);
  s.obj->set_projector_pair_sptr(pp);
  s.obj->set_num_subsets(1);
  s.obj->set_use_subset_sensitivities(true);
  s.obj->set_recompute_sensitivity(true);
  return s;
}
static Body make_D(const std::string& what, int threads, bool cache, int setup_threads, bool stream_data = false)
{
  Body b;
  b.name = "D:" + what + ":t=" + std::to_string(threads) + ":cache=" + std::to_string(cache) + ":setup_t=" + std::to_string(setup_threads) + (stream_data ? ":stream=1" : "");
  b.threads = threads;
  b.exact = false;
  b.run = [what, cache, setup_threads, stream_data]() {
    const int use_threads = omp_get_max_threads();
    ObjSetup s = make_obj(cache, stream_data);
    std::string out;
    if (what == "sensitivity")
      { // set_up computes the subset sensitivity through distributable_computation: explored
        shared_ptr<DiscretisedDensity<3, float>> t(s.im->clone());
        if (s.obj->set_up(t) != Succeeded::yes) return std::string("set_up failed");
        return img_sig(s.obj->get_subset_sensitivity(0));
      }
    if (what == "fwd" || what == "bck")
      {
        shared_ptr<ProjMatrixByBinUsingRayTracing> m(new ProjMatrixByBinUsingRayTracing()); m->enable_cache(cache);
        if (what == "fwd")
          {
            ForwardProjectorByBinUsingProjMatrixByBin f(m);
            vompx::suspend(true); vomp_set_team_size(use_threads == 1 ? 1 : setup_threads); f.set_up(s.pdi, s.im); vomp_set_team_size(use_threads); vompx::suspend(false);
            auto pd = small::make_projdata(s.pdi);
            f.forward_project(*pd, *s.im);
            return pd_sig(*pd);
          }
        BackProjectorByBinUsingProjMatrixByBin bp(m);
        vompx::suspend(true); vomp_set_team_size(use_threads == 1 ? 1 : setup_threads); bp.set_up(s.pdi, s.im); vomp_set_team_size(use_threads); vompx::suspend(false);
        shared_ptr<DiscretisedDensity<3, float>> t(s.im->get_empty_copy());
        bp.back_project(*t, *s.data);
        return img_sig(*t);
      }
    if (what == "bck2")
      { // ONE back projector used twice: first by a team of setup_threads (explored, so that the higher-numbered threads do work),
        // then by a (smaller or larger) team of `threads`; both results must be the single-thread result
        shared_ptr<ProjMatrixByBinUsingRayTracing> m(new ProjMatrixByBinUsingRayTracing()); m->enable_cache(cache);
        BackProjectorByBinUsingProjMatrixByBin bp(m);
        vompx::suspend(true); vomp_set_team_size(use_threads == 1 ? 1 : setup_threads); bp.set_up(s.pdi, s.im); vompx::suspend(false);
        shared_ptr<DiscretisedDensity<3, float>> t1(s.im->get_empty_copy()), t2(s.im->get_empty_copy());
        bp.back_project(*t1, *s.data);
        vomp_set_team_size(use_threads);
        bp.back_project(*t2, *s.data);
        return img_sig(*t1) + "||" + img_sig(*t2);
      }
    shared_ptr<DiscretisedDensity<3, float>> t(s.im->clone());
    // set_up runs with the set-up team size under the default (deterministic) schedule: not part of the explored space
    vompx::suspend(true);
    vomp_set_team_size(use_threads == 1 ? 1 : setup_threads);
    const bool ok = s.obj->set_up(t) == Succeeded::yes;
    vomp_set_team_size(use_threads);
    vompx::suspend(false);
    if (!ok) return std::string("set_up failed");
    if (what == "gradient")
      {
        shared_ptr<DiscretisedDensity<3, float>> g(s.im->get_empty_copy());
        s.obj->compute_sub_gradient_without_penalty(*g, *s.im, 0);
        return img_sig(*g);
      }
    if (what == "value")
      {
        const double v = s.obj->compute_objective_function_without_penalty(*s.im, 0);
        return "value=" + fnum(v);
      }
    if (what == "hessian")
      {
        shared_ptr<DiscretisedDensity<3, float>> h(s.im->get_empty_copy());
        shared_ptr<DiscretisedDensity<3, float>> v(s.im->clone());
        s.obj->accumulate_sub_Hessian_times_input_without_penalty(*h, *s.im, *v, 0);
        return img_sig(*h);
      }
    return std::string("unknown");
  };
  return b;
}

// ------------------------------------------------------------------------------------------------ body X (single-scatter simulation)
// The parallel loop over the bins of the FIRST viewgram of process_data() runs with a team (the other viewgrams single-threaded), on a
// fresh simulation object, so that the first-use races of the (scatter point, detector) line-integral caches are re-armed in every schedule.
#include "stir/scatter/SingleScatterSimulation.h"
static Body make_X(int threads, bool cache)
{
  Body b;
  b.name = "X:t=" + std::to_string(threads) + ":cache=" + std::to_string(cache);
  b.threads = threads;
  b.exact = false;
  b.run = [cache]() {
    typedef VoxelsOnCartesianGrid<float> Vox;
    auto grid = [](int nz, int half, float vz, float vxy) {
      shared_ptr<Vox> im(new Vox(IndexRange3D(0, nz - 1, -half, half, -half, half), CartesianCoordinate3D<float>(0.F, 0.F, 0.F), CartesianCoordinate3D<float>(vz, vxy, vxy)));
      im->fill(0.F);
      return im;
    };
    auto disk = [](Vox& im, float r, float val, float rim) {
      for (int z = im.get_min_z(); z <= im.get_max_z(); ++z)
        for (int y = im.get_min_y(); y <= im.get_max_y(); ++y)
          for (int x = im.get_min_x(); x <= im.get_max_x(); ++x)
            { const float d = std::sqrt(float(y * y + x * x)); if (d <= r) im[z][y][x] = val; else if (d <= r + 1) im[z][y][x] = rim; }
    };
    auto sc = small::cyl_scanner(8, 2, 0, 0.F, 100.F, 16.F);
    auto tmpl = small::make_pdi(sc, 1, 1);
    shared_ptr<ExamInfo> ex(new ExamInfo);
    ex->imaging_modality = ImagingModality::PT; ex->set_low_energy_thres(350.F); ex->set_high_energy_thres(650.F);
    auto act = grid(5, 3, 8.F, 14.F); disk(*act, 2.5F, 1.F, 0.F);
    { int k = 0; for (auto it = act->begin_all(); it != act->end_all(); ++it, ++k) if (*it > 0) *it = float(1 + k % 5); }
    auto att = grid(5, 3, 8.F, 14.F); disk(*att, 2.2F, 0.096F, 0.03F);
    auto sp = grid(3, 2, 16.F, 21.F); disk(*sp, 1.2F, 0.096F, 0.03F);
    SingleScatterSimulation s;
    s.set_randomly_place_scatter_points(false);
    s.set_attenuation_threshold(0.01F);
    s.set_use_cache(cache);
    s.set_template_proj_data_info(*tmpl);
    s.set_exam_info(*ex);
    s.set_activity_image_sptr(act);
    s.set_density_image_sptr(att);
    s.set_density_image_for_scatter_points_sptr(sp);
    shared_ptr<ProjDataInMemory> out(new ProjDataInMemory(ex, s.get_template_proj_data_info_sptr()));
    s.set_output_proj_data_sptr(out);
    vompx::suspend(true);
    const bool ok = s.set_up() == Succeeded::yes;
    vompx::suspend(false);
    if (!ok) return std::string("set_up failed");
    if (omp_get_max_threads() > 1) vomp_region_of_interest(); // the first top-level parallel region (first viewgram) gets the team
    if (s.process_data() != Succeeded::yes) return std::string("process_data failed");
    return pd_sig(*out);
  };
  return b;
}

// ------------------------------------------------------------------------------------------------ body LM (list-mode gradient)
// PoissonLogLikelihoodWithLinearModelForMeanAndListModeDataWithProjMatrixByBin on an in-memory list-mode stream of 6 prompts (two of
// them in the same bin): the sub-gradient through LM_distributable_computation with a team, compared with the single-thread result
#include "ref_listmode.h"
#include "stir/recon_buildblock/PoissonLogLikelihoodWithLinearModelForMeanAndListModeDataWithProjMatrixByBin.h"
static Body make_LM(int threads, int cache_size)
{
  Body b;
  b.name = "LM:t=" + std::to_string(threads) + ":cache=" + std::to_string(cache_size);
  b.threads = threads;
  b.exact = false;
  b.run = [cache_size]() {
    typedef PoissonLogLikelihoodWithLinearModelForMeanAndListModeDataWithProjMatrixByBin<DiscretisedDensity<3, float>> LMObj;
    auto sc = small::cyl_scanner(8, 2);
    auto pdi = small::make_pdi(sc, 1, 1);
    auto im = small::make_image(*pdi);
    shared_ptr<ExamInfo> ex(new ExamInfo); ex->imaging_modality = ImagingModality::PT; im->set_exam_info(*ex);
    { int k = 0; for (auto it = im->begin_all(); it != im->end_all(); ++it, ++k) *it = 1.F + float(k % 4); }
    const lmref::Stream st = lmref::parse_stream("p0.0.0.4.0,p0.1.1.5.0,p1.0.0.4.0,p0.0.0.4.0,t1,p1.2.1.6.0,p0.3.0.7.0");
    shared_ptr<lmref::MemListMode> lm(new lmref::MemListMode(pdi, st));
    shared_ptr<LMObj> obj(new LMObj);
    shared_ptr<ProjMatrixByBinUsingRayTracing> m(new ProjMatrixByBinUsingRayTracing());
    m->set_num_tangential_LORs(1);
    vompx::suspend(true);
    vomp_set_team_size(1);
    obj->set_input_data(shared_ptr<ExamData>(lm));
    obj->set_proj_matrix(m);
    obj->set_num_subsets(1);
    obj->set_use_subset_sensitivities(true);
    obj->set_recompute_sensitivity(true);
    // the list-mode cache files live in a directory of this process: the shards of one run share their working directory, and a cache
    // file rewritten by another shard between set_up() and the gradient would look like a schedule-dependent result
    static const std::string cache_dir = [] { std::string d = "./lmcache_" + std::to_string((long)getpid()); (void)!system(("mkdir -p " + d).c_str()); return d; }();
    obj->set_cache_path(cache_dir);
    obj->set_cache_max_size((unsigned long)cache_size);
    obj->set_recompute_cache(true);
    shared_ptr<DiscretisedDensity<3, float>> est(im->clone());
    const bool ok = obj->set_up(est) == Succeeded::yes;
    vompx::suspend(false);
    if (!ok) return std::string("set_up failed");
    shared_ptr<DiscretisedDensity<3, float>> g(im->get_empty_copy());
    vomp_set_all_regions(1); // LM_distributable_computation has no region marker: every top-level region gets the team here
    const int use_threads = g_body_threads;
    vomp_set_team_size(use_threads);
    obj->compute_sub_gradient_without_penalty_plus_sensitivity(*g, *est, 0);
    vomp_set_all_regions(0);
    return img_sig(*g);
  };
  return b;
}

// ------------------------------------------------------------------------------------------------ body P
static Body make_P(int store, int threads)
{
  Body b;
  b.name = "P:store=" + std::to_string(store) + ":t=" + std::to_string(threads);
  b.threads = threads;
  b.exact = true;
  b.run = [store, threads]() {
    auto sc = small::cyl_scanner(8, 2);
    shared_ptr<ProjDataInfo> pdi = small::make_pdi(sc, 1, 1);
    shared_ptr<ExamInfo> ex(new ExamInfo); ex->imaging_modality = ImagingModality::PT;
    shared_ptr<ProjData> pd;
    if (store == 0) pd.reset(new ProjDataInMemory(ex, pdi));
    else
      {
        shared_ptr<std::iostream> str(new SharedPositionStream);
        pd.reset(new ProjDataFromStream(ex, pdi, str));
      }
    // initial labelled content
    { std::vector<double> v(small::all_bins(*pdi).size()); for (size_t i = 0; i < v.size(); ++i) v[i] = (double)(i + 1); small::unflat(*pd, v); }
    std::vector<std::string> res(threads);
    auto work = [&](int t) {
      // thread t: read a viewgram, scale it, write it back; then read the viewgram another thread writes to a different view
      const int seg = (t % 3) - 1, view = t % pdi->get_num_views();
      Viewgram<float> vg = pd->get_viewgram(view, seg);
      vg *= 2.F;
      pd->set_viewgram(vg);
      Viewgram<float> other = pd->get_viewgram((view + 2) % pdi->get_num_views(), 0);
      res[t] = fnum(other.sum());
    };
    if (omp_get_max_threads() == 1) { for (int t = 0; t < threads; ++t) work(t); }
    else
      {
        vomp_region_of_interest();
#pragma omp parallel
        { const int t = omp_get_thread_num(); if (t < threads) work(t); }
      }
    std::string all;
    for (auto& r : res) all += r + "|";
    return all + pd_sig(*pd);
  };
  return b;
}

// ------------------------------------------------------------------------------------------------ driver
static std::vector<Body> bodies(bool thorough, bool tsan)
{
  std::vector<Body> v;
  // L: all ordered pairs of first-call operations (2 threads); triples in thorough
  for (int a = 0; a < 5; ++a) for (int b = 0; b < 5; ++b) v.push_back(make_L({ a, b }, 1));
  v.push_back(make_L({ 0, 3 }, 3));   // span 3: get_det_pos_pair_for_bin (op 1) is only defined for span 1
  v.push_back(make_L({ 2, 2 }, 3));
  // M
  for (int cm = 0; cm < 3; ++cm) for (int var = 0; var < 2; ++var) v.push_back(make_M(cm, var, 2));
  if (thorough) for (int cm = 1; cm < 3; ++cm) v.push_back(make_M(cm, 1, 3));
  // D
  for (const char* w : { "gradient", "value", "sensitivity", "hessian", "fwd", "bck" }) v.push_back(make_D(w, 2, false, 2));
  v.push_back(make_D("gradient", 2, true, 2));
  v.push_back(make_D("bck", 3, false, 2));   // team size at use != team size at set_up
  v.push_back(make_D("bck2", 2, false, 3));  // the same projector used by 3 threads, then by 2 (per-thread accumulators of the first call must not leak)
  v.push_back(make_D("bck2", 3, false, 2));
  v.push_back(make_D("gradient", 3, false, 1));
  // measured data read through ProjDataFromStream (one shared file position) from inside the parallel loops
  for (const char* w : { "hessian", "gradient", "bck" }) v.push_back(make_D(w, 2, false, 2, true));
  if (thorough)
    {
      for (const char* w : { "hessian", "value" }) v.push_back(make_D(w, 3, false, 3, true));
      for (const char* w : { "gradient", "value", "bck", "fwd" }) v.push_back(make_D(w, 3, false, 3));
      v.push_back(make_D("bck", 2, false, 3));
      v.push_back(make_D("gradient", 4, false, 4));
    }
  // LM
  v.push_back(make_LM(2, 0));
  if (thorough) { v.push_back(make_LM(2, 3)); v.push_back(make_LM(3, 0)); }
  // X
  v.push_back(make_X(2, true));
  if (thorough) { v.push_back(make_X(2, false)); v.push_back(make_X(3, true)); }
  // P
  for (int st = 0; st < 2; ++st) v.push_back(make_P(st, 2));
  if (thorough) for (int st = 0; st < 2; ++st) v.push_back(make_P(st, 3));
  // L triples last: explored without a preemption bound they take most of the thorough tier's budget (two different tables in flight
  // give > 10^6 schedules); everything above completes first, a deadline then only cuts into these
  if (thorough) for (int a = 0; a < 5; ++a) for (int b = a; b < 5; ++b) for (int c = b; c < 5; ++c) v.push_back(make_L({ a, b, c }, 1));
  (void)tsan;
  return v;
}

int main(int argc, char** argv)
{
  vmc::Ctx ctx(argc, argv, "C18");
  small::quiet();
#ifdef VERIF_FLAVOUR_TSAN
  const bool tsan = true;
#else
  const bool tsan = false;
#endif
  ctx.rule = "per body: stateless DFS over schedules (choice sequences at schedule points with >=2 enabled threads) with iterative preemption bounding; one execution of the real code on fresh objects per schedule; distinct = distinct schedules";
  ctx.assume("sequentially consistent interleavings at the hooked synchronisation points (locks, criticals, dynamic loop hand-out, single, barriers, STIR_VERIF_POINT hooks); data-race freedom between points is checked by the ThreadSanitizer flavour of the same exploration");
  ctx.assume("float outcomes compared with tolerance 2e-4 of the maximum (re-association of per-thread partial sums)");
  ctx.assume("only parallel regions announced by STIR_VERIF_REGION get a team; all others run with one thread");
  std::string only_body;
  for (size_t i = 0; i + 1 < ctx.extra_args.size(); ++i) if (ctx.extra_args[i] == "--body") only_body = ctx.extra_args[i + 1];
  int max_bound = ctx.thorough() ? 2 : 1;
  if (tsan) max_bound = 1; // one preemption is needed before a second thread gets any chunk of a dynamic loop: bound 0 would leave the loop bodies single-threaded
  for (size_t i = 0; i + 1 < ctx.extra_args.size(); ++i) if (ctx.extra_args[i] == "--bound") max_bound = atoi(ctx.extra_args[i + 1].c_str());

  // ---- model-conformance mode (DESIGN 3.5, harness C18_model): for the given L bodies, explore ALL schedules (no preemption bound)
  //      and write the complete event trace of every execution, one per line: "<body>|tid:event,tid:event,...|outcome-ok"
  {
    std::string trace_file; std::vector<std::string> trace_bodies;
    for (size_t i = 0; i + 1 < ctx.extra_args.size(); ++i)
      {
        if (ctx.extra_args[i] == "--traces") trace_file = ctx.extra_args[i + 1];
        if (ctx.extra_args[i] == "--trace-ops") trace_bodies.push_back(ctx.extra_args[i + 1]);
      }
    if (!trace_file.empty())
      {
        struct Obs { std::string ev; } obs;
        auto observer = +[](void* user, const vomp_point* p, int /*next*/) {
          Obs* o = static_cast<Obs*>(user);
          std::string e;
          switch (p->kind)
            {
            case VOMP_K_START: e = "start"; break;
            case VOMP_K_CRITICAL: e = "crit"; break;
            case VOMP_K_DONE: e = "done"; break;
            case VOMP_K_JOIN: e = "join"; break;
            case VOMP_K_HOOK:
              {
                const std::string site = p->site ? p->site : "";
                if (site.size() >= 5 && site.compare(site.size() - 5, 5, ".fill") == 0) e = "fill";
                else if (site.find(".before_publish") != std::string::npos) e = "pub";
                else e = "hook:" + site;
                break;
              }
            default: e = "kind" + std::to_string(p->kind); break;
            }
          if (!o->ev.empty()) o->ev += ",";
          o->ev += std::to_string(p->tid) + ":" + e;
        };
        FILE* f = fopen(trace_file.c_str(), "w");
        if (!f) { fprintf(stderr, "cannot write %s\n", trace_file.c_str()); return 2; }
        for (const std::string& opsstr : trace_bodies)
          {
            Body body = make_L(vmc::ints(opsstr), 1);
            vomp_set_team_size(1);
            const std::string ref = body.run();
            vomp_set_team_size(body.threads);
            vompx::Explorer ex;
            long long nexec = 0, bad = 0;
            ex.body = [&](vompx::Execution& x) {
              obs.ev.clear();
              vomp_set_observer(observer, &obs);
              std::string w;
              const bool threw = small::throws([&] { x.outcome = body.run(); }, &w);
              vomp_set_observer(nullptr, nullptr);
              const bool ok = !threw && x.outcome == ref;
              ++nexec; if (!ok) ++bad;
              fprintf(f, "%s|%s|%d\n", opsstr.c_str(), obs.ev.c_str(), ok ? 1 : 0);
            };
            vompx::Result r;
            ex.explore(1 << 20, r);
            fprintf(f, "#summary %s schedules=%lld complete=%d bad=%lld\n", opsstr.c_str(), nexec, r.complete ? 1 : 0, bad);
          }
        fclose(f);
        return 0;
      }
  }

  auto all = bodies(ctx.thorough(), tsan);
  // replay: case = "body=<name>;bound=<b>;sched=<c0,c1,...>"
  std::map<std::string, std::string> rk; if (ctx.replaying()) rk = vmc::kv(ctx.replay);
  uint64_t unit = 0;
  for (auto& body : all)
    {
      if (!only_body.empty() && body.name.compare(0, only_body.size(), only_body) != 0) continue;
      if (ctx.replaying() && rk["body"] != body.name) continue;
      const std::string kind = body.name.substr(0, body.name.find(':'));
      // reference: one thread
      vomp_set_team_size(1); g_body_threads = 1;
      std::string ref;
      std::string what;
      ctx.current("body=" + body.name, "body=" + body.name + ";bound=0;sched=");
      if (small::throws([&] { ref = body.run(); }, &what)) { ctx.violation("clause=single_thread_reference_failed;body=" + kind, "body=" + body.name + ";bound=0;sched=", what); continue; }
      vomp_set_team_size(body.threads); g_body_threads = body.threads;

      vompx::Explorer ex;
      ex.body = [&](vompx::Execution& x) {
        const int races_before = g_race_count;
        g_race_desc.clear();
        std::string w;
        if (small::throws([&] { x.outcome = body.run(); }, &w)) { x.err_key = "clause=exception;body=" + kind; x.err_msg = "exception in multi-threaded run: " + w; return; }
        if (g_race_count != races_before)
          { x.err_key = "clause=data_race;body=" + kind + ";race=" + g_race_desc.substr(0, 150); x.err_msg = "ThreadSanitizer: " + g_race_desc; return; }
        const bool same = body.exact ? x.outcome == ref : sig_close(x.outcome, ref);
        if (!same) { x.err_key = "clause=result_differs_from_single_thread;body=" + kind; x.err_msg = "multi-threaded outcome differs from the single-thread outcome: got " + x.outcome.substr(0, 300) + " expected " + ref.substr(0, 300); }
      };
      ex.expired = [&] { return ctx.expired(); };
      ex.before_run = [&](const std::vector<int>& prefix) { ctx.current("body=" + kind + ":" + body.name.substr(2, body.name.find(':', 2) == std::string::npos ? std::string::npos : body.name.find(':', 2) - 2), "body=" + body.name + ";bound=99;sched=" + vompx::schedule_str(prefix)); };
      ex.on_violation = [&](const std::vector<int>& s, const vompx::Execution& x) {
        ctx.violation(x.err_key, "body=" + body.name + ";bound=99;sched=" + vompx::schedule_str(s), x.err_msg + "  [body " + body.name + ", schedule " + vompx::schedule_str(s) + ", " + std::to_string(x.preemptions) + " preemptions]");
      };
      if (ctx.replaying())
        {
          std::vector<int> sched = vmc::ints(rk["sched"]);
          fprintf(stderr, "replaying body %s schedule %s\n", body.name.c_str(), rk["sched"].c_str());
          vompx::Execution x = ex.run(sched);
          if (!x.err_key.empty()) ex.on_violation(x.choices(), x);
          // determinism: same schedule twice gives the same outcome
          vompx::Execution y = ex.run(sched);
          if (y.outcome != x.outcome) ctx.violation("nondeterminism;body=" + kind, ctx.replay, "same schedule, different outcome");
          continue;
        }
      // sharding: whole bodies are units (bound 0/1 are cheap); inside a body all first-level alternatives
      if (!ctx.mine(unit++)) continue;
      vompx::Result last;
      for (int bound = 0; bound <= (kind == "L" ? 99 : max_bound + 1); ++bound)
        {
          vompx::Result r;
          ctx.current("body=" + body.name, "body=" + body.name + ";bound=" + std::to_string(bound) + ";sched=");
          if (bound > 0 && bound > (kind == "L" ? (ctx.thorough() ? 99 : 3) : (kind == "D" || kind == "X" || kind == "LM") ? max_bound : max_bound + 1)) break;
          ex.explore(bound, r);
          last = r;
          if (!r.complete) { ctx.exhaustive = false; ctx.observe("deadline: body " + body.name + " not completed at preemption bound " + std::to_string(bound) + " (" + std::to_string(r.schedules) + " schedules explored)"); ctx.count("bodies_cut_by_deadline"); break; }
          ctx.maxi("preemption_bound_completed_" + kind, bound);
          if (ctx.expired()) break;
        }
      ctx.count("bodies");
      ctx.count("states", last.schedules);            // one terminal state per schedule (stateless search)
      ctx.count("transitions", last.choice_points);
      ctx.count("traces_validated_against_impl", last.schedules);
      ctx.count("schedules_" + kind, last.schedules);
      ctx.count("distinct_outcomes_" + kind, (long long)last.outcomes.size());
      ctx.maxi("max_choice_points_per_execution_" + kind, last.max_points);
      for (auto& s : last.sites) ctx.count(std::string("hook_choice_points:") + s.first, s.second);
      ctx.sample(body.name + ": " + std::to_string(last.schedules) + " schedules, <= " + std::to_string(last.max_points) + " choice points each, " + std::to_string(last.outcomes.size()) + " distinct outcomes; single-thread outcome " + ref.substr(0, 70), 12);
      ctx.digest(body.name + ref);
    }
  vomp_stats_t* st = vomp_stats();
  ctx.count("sched_points", st->sched_points);
  ctx.count("lock_acquires", st->lock_acquires);
  ctx.count("lock_contended", st->lock_contended);
  ctx.count("team_regions", st->regions_team);
  ctx.count("loop_chunks", st->loop_chunks);
  return ctx.finish();
}
