// C15 - rebinning (SSRB) and resampling (zoom_image) conserve counts and physical positions.
//
// Bounded-exhaustive enumeration on the real STIR code (DESIGN.md §5.C15):
//
//  part=ssrb : for every generated small Cyl/CylTOF scanner, every fine sampling (span, max ring difference,
//              view mashing, tangential size, TOF mashing) and every SSRB parameter tuple STIR accepts
//              (num_segments_to_combine, num_views_to_combine, num_tang_poss_to_trim, max_segment_to_process,
//              num_tof_bins_to_combine), the linear map SSRB(out,in,do_norm=false) is extracted COLUMN BY COLUMN
//              (unit count in each fine bin that receives at least one detector pair).  Reference: the bin the
//              OUTPUT ProjDataInfo assigns (get_bin_for_det_pos_pair) to the detector pairs of that fine bin.
//              + a labelled superposition (linearity) and the conservation-of-total clause.
//  part=zoom : for small input grids, all zooms x offsets x output sizes, the linear map zoom_image(preserve_sum)
//              is applied to EVERY unit voxel (basis) plus a uniform block and a labelled image; the one-call,
//              in-place, two-step and (where applicable) transaxial-only API variants are compared for all
//              three ZoomOptions.
#include "vmc.h"
#include "stir_small.h"
#include "stir/SSRB.h"
#include "stir/zoom.h"
#include "stir/ZoomOptions.h"
#include "stir/DetectionPositionPair.h"
#include "stir/Sinogram.h"
#include "stir/Succeeded.h"
#include "stir/IndexRange3D.h"
#include "stir/CartesianCoordinate3D.h"
#include <array>
#include <algorithm>

using namespace stir;
typedef std::array<int, 5> BinKey; // segment, axial, view, tangential, timing

static BinKey key_of(const Bin& b) { return BinKey{ { b.segment_num(), b.axial_pos_num(), b.view_num(), b.tangential_pos_num(), b.timing_pos_num() } }; }
static std::string key_str(const BinKey& k)
{
  return "s" + std::to_string(k[0]) + "a" + std::to_string(k[1]) + "v" + std::to_string(k[2]) + "t" + std::to_string(k[3]) + "k" + std::to_string(k[4]);
}
static bool in_range(const ProjDataInfo& p, const Bin& b)
{
  if (b.segment_num() < p.get_min_segment_num() || b.segment_num() > p.get_max_segment_num()) return false;
  if (b.axial_pos_num() < p.get_min_axial_pos_num(b.segment_num()) || b.axial_pos_num() > p.get_max_axial_pos_num(b.segment_num())) return false;
  if (b.view_num() < p.get_min_view_num() || b.view_num() > p.get_max_view_num()) return false;
  if (b.tangential_pos_num() < p.get_min_tangential_pos_num() || b.tangential_pos_num() > p.get_max_tangential_pos_num()) return false;
  if (b.timing_pos_num() < p.get_min_tof_pos_num() || b.timing_pos_num() > p.get_max_tof_pos_num()) return false;
  return true;
}

// =================================================================================================== SSRB
struct Fine { int D = 8, R = 2, T = 0, span = 1, md = 1, vm = 1, tg = 4, tm = 0; };
struct Par { int nsc = 1, nvc = 1, trim = 0, maxseg = -1, ntc = 1; };

static std::string fine_str(const Fine& f)
{
  return "part=ssrb;D=" + vmc::str(f.D) + ";R=" + vmc::str(f.R) + ";T=" + vmc::str(f.T) + ";span=" + vmc::str(f.span) + ";md=" + vmc::str(f.md)
         + ";vm=" + vmc::str(f.vm) + ";tg=" + vmc::str(f.tg) + ";tm=" + vmc::str(f.tm);
}
static std::string par_str(const Par& p)
{
  return ";nsc=" + vmc::str(p.nsc) + ";nvc=" + vmc::str(p.nvc) + ";trim=" + vmc::str(p.trim) + ";maxseg=" + vmc::str(p.maxseg) + ";ntc=" + vmc::str(p.ntc);
}

struct Pair { int d1, r1, d2, r2, t; };

// the fine geometry with, per fine bin, the detector pairs (x unmashed TOF index) it receives
struct FineWorld
{
  Fine f;
  shared_ptr<Scanner> sc;
  shared_ptr<ProjDataInfo> pdi;
  const ProjDataInfoCylindricalNoArcCorr* nac = nullptr;
  std::map<BinKey, std::vector<Pair>> pairs_of_bin;
  long long num_pairs = 0, pairs_outside_fine = 0;
  bool unequal_compression = false;
  bool build(std::string* why)
  {
    return !small::throws([&] {
      sc = small::cyl_scanner(f.D, f.R, f.T);
      pdi = small::make_pdi(sc, f.span, f.md, f.D / 2 / f.vm, f.tg, false, f.T > 0 ? f.tm : 0);
      nac = dynamic_cast<const ProjDataInfoCylindricalNoArcCorr*>(pdi.get());
      if (!nac) error("not a ProjDataInfoCylindricalNoArcCorr");
      const int c0 = nac->get_max_ring_difference(0) - nac->get_min_ring_difference(0);
      for (int s = pdi->get_min_segment_num(); s <= pdi->get_max_segment_num(); ++s)
        if (nac->get_max_ring_difference(s) - nac->get_min_ring_difference(s) != c0) unequal_compression = true;
      const int tmax = f.T > 0 ? f.T / 2 : 0;
      for (int r1 = 0; r1 < f.R; ++r1)
        for (int d1 = 0; d1 < f.D; ++d1)
          for (int r2 = 0; r2 < f.R; ++r2)
            for (int d2 = 0; d2 < f.D; ++d2)
              {
                if (d1 == d2) continue; // assert()-only precondition of the det-pair lookup
                for (int t = -tmax; t <= tmax; ++t)
                  {
                    ++num_pairs;
                    Bin b;
                    const DetectionPositionPair<> dp(DetectionPosition<>(d1, r1, 0), DetectionPosition<>(d2, r2, 0), t);
                    if (nac->get_bin_for_det_pos_pair(b, dp) != Succeeded::yes || !in_range(*pdi, b)) { ++pairs_outside_fine; continue; }
                    pairs_of_bin[key_of(b)].push_back(Pair{ d1, r1, d2, r2, t });
                  }
              }
    }, why);
  }
};

static std::map<BinKey, float> read_all(const ProjData& pd, double* total)
{
  std::map<BinKey, float> nz;
  double tot = 0;
  const ProjDataInfo& p = *pd.get_proj_data_info_sptr();
  for (int k = p.get_min_tof_pos_num(); k <= p.get_max_tof_pos_num(); ++k)
    for (int s = p.get_min_segment_num(); s <= p.get_max_segment_num(); ++s)
      for (int a = p.get_min_axial_pos_num(s); a <= p.get_max_axial_pos_num(s); ++a)
        {
          const Sinogram<float> sino = pd.get_sinogram(a, s, false, k);
          for (int v = p.get_min_view_num(); v <= p.get_max_view_num(); ++v)
            for (int t = p.get_min_tangential_pos_num(); t <= p.get_max_tangential_pos_num(); ++t)
              {
                const float x = sino[v][t];
                if (x != 0.F) { nz[BinKey{ { s, a, v, t, k } }] = x; tot += x; }
              }
        }
  if (total) *total = tot;
  return nz;
}

static void set_bin(ProjDataInMemory& pd, const BinKey& k, float value)
{
  Sinogram<float> sino = pd.get_sinogram(k[1], k[0], false, k[4]);
  sino[k[2]][k[3]] = value;
  pd.set_sinogram(sino);
}

// key fields: which coordinate(s) of the bin are concerned and the state of the option(s) acting on that coordinate
static std::string class_fields(const FineWorld& w, const Par& p, const std::string& coords)
{
  std::string s = ";coord=" + coords;
  const bool all = coords == "multiple" || coords == "none";
  if (all || coords.find("segment") != std::string::npos || coords.find("axial") != std::string::npos)
    {
      s += ";segcomb=" + std::string(p.nsc > 1 ? "1" : "0");
      s += ";in_span=" + std::string(w.f.span > 1 ? ">1" : "1");
      s += ";unequal_in_compression=" + std::string(w.unequal_compression ? "1" : "0");
      s += ";maxseg=" + std::string(p.maxseg < 0 || p.maxseg == w.pdi->get_max_segment_num() ? "all" : "reduced");
    }
  if (all || coords.find("view") != std::string::npos) s += ";viewcomb=" + std::string(p.nvc > 1 ? "1" : "0");
  if (all || coords.find("tangential") != std::string::npos) s += ";trim=" + std::string(p.trim > 0 ? "1" : "0");
  if (all || coords.find("timing") != std::string::npos) s += ";tofcomb=" + std::string(p.ntc == 1 ? "none" : (p.ntc % 2 ? "odd" : "even"));
  return s;
}
// which coordinates of b are outside the ranges of p
static std::string outside_coords(const ProjDataInfo& p, const Bin& b, bool ring_pair_ok)
{
  std::string d;
  auto add = [&](const char* n) { d += std::string(d.empty() ? "" : "+") + n; };
  if (!ring_pair_ok || b.segment_num() < p.get_min_segment_num() || b.segment_num() > p.get_max_segment_num()) add("segment");
  else if (b.axial_pos_num() < p.get_min_axial_pos_num(b.segment_num()) || b.axial_pos_num() > p.get_max_axial_pos_num(b.segment_num())) add("axial");
  if (b.view_num() < p.get_min_view_num() || b.view_num() > p.get_max_view_num()) add("view");
  if (b.tangential_pos_num() < p.get_min_tangential_pos_num() || b.tangential_pos_num() > p.get_max_tangential_pos_num()) add("tangential");
  if (b.timing_pos_num() < p.get_min_tof_pos_num() || b.timing_pos_num() > p.get_max_tof_pos_num()) add("timing");
  return d.empty() ? "none" : d;
}
static std::string diff_coords(const BinKey& a, const BinKey& b)
{
  const char* nm[5] = { "segment", "axial", "view", "tangential", "timing" };
  std::string d;
  for (int i = 0; i < 5; ++i) if (a[i] != b[i]) d += std::string(d.empty() ? "" : "+") + nm[i];
  return d.empty() ? "none" : d;
}

static void run_ssrb_body(vmc::Ctx& ctx, FineWorld& w, const Par& p);
// one (fine geometry, SSRB parameter) configuration
static void run_ssrb(vmc::Ctx& ctx, FineWorld& w, const Par& p)
{
  // SSRB(ProjDataInfo) tests "no output segments" with a truncating division, so num_segments_to_combine/2 > max_segment_to_process is
  // accepted and then reads ring differences of non-existing segments (out of bounds): not a legal request, never issued here.
  const int ms = p.maxseg < 0 ? w.pdi->get_max_segment_num() : p.maxseg;
  if (p.nsc / 2 > ms) { ctx.count("ssrb_illegal_more_segments_to_combine_than_exist_skipped"); return; }
  std::string why;
  if (small::throws([&] { run_ssrb_body(ctx, w, p); }, &why))
    {
      ctx.count("rejected_configs");
      ctx.count("ssrb_rejected_late");
      ctx.observe("error() after SSRB(ProjDataInfo) had accepted " + fine_str(w.f) + par_str(p) + " : " + why.substr(0, 160));
    }
}
static void run_ssrb_body(vmc::Ctx& ctx, FineWorld& w, const Par& p)
{
  const std::string kase = fine_str(w.f) + par_str(p);
  ctx.current("part=ssrb", kase);
  shared_ptr<ProjDataInfo> out_pdi;
  std::string why;
  if (small::throws([&] { out_pdi.reset(SSRB(*w.pdi, p.nsc, p.nvc, p.trim, p.maxseg, p.ntc)); }, &why))
    {
      ctx.count("rejected_configs");
      ctx.count("ssrb_rejected_by_SSRB_geometry");
      return;
    }
  const ProjDataInfoCylindricalNoArcCorr* onac = dynamic_cast<const ProjDataInfoCylindricalNoArcCorr*>(out_pdi.get());
  if (!onac) { ctx.violation("part=ssrb;clause=out_type", kase, "output ProjDataInfo is not ProjDataInfoCylindricalNoArcCorr"); return; }
  ctx.count("ssrb_configs");

  // expected output bin per fine bin (from the OUTPUT geometry and the detector pairs only)
  struct Exp { bool present = false; BinKey out; std::string outside; };
  std::map<BinKey, Exp> expect;
  long long kept = 0, dropped = 0;
  bool geometry_ok = true;
  for (auto& kv : w.pairs_of_bin)
    {
      bool first = true; bool inconsistent = false; Exp e0; std::string dc;
      for (const Pair& q : kv.second)
        {
          Bin b;
          const DetectionPositionPair<> dp(DetectionPosition<>(q.d1, q.r1, 0), DetectionPosition<>(q.d2, q.r2, 0), q.t);
          Exp cur;
          const bool ring_ok = onac->get_bin_for_det_pos_pair(b, dp) == Succeeded::yes;
          cur.out = key_of(b);
          if (ring_ok && in_range(*out_pdi, b)) cur.present = true; else cur.outside = outside_coords(*out_pdi, b, ring_ok);
          if (first) { e0 = cur; first = false; }
          else if (cur.present != e0.present) { inconsistent = true; dc = cur.present ? e0.outside : cur.outside; }
          else if (cur.present && cur.out != e0.out) { inconsistent = true; dc = diff_coords(cur.out, e0.out); }
        }
      if (inconsistent)
        {
          // two detector pairs that share a fine bin are assigned to different output bins: no rebinning of binned data can satisfy the statement
          ctx.violation("part=ssrb;clause=output_geometry_not_a_coarsening" + class_fields(w, p, dc), kase,
                        "detector pairs of fine bin " + key_str(kv.first) + " are assigned to different bins (or partly to none) by the output ProjDataInfo of SSRB()");
          geometry_ok = false;
          continue;
        }
      expect[kv.first] = e0;
      (e0.present ? kept : dropped)++;
    }
  if (!geometry_ok) return;
  const bool tof_tiles = w.f.T == 0 || (w.pdi->get_num_tof_poss() % p.ntc == 0);
  const int in_max_seg = w.pdi->get_max_segment_num();
  const bool segs_tile = (2 * in_max_seg + 1) % p.nsc == 0;
  const bool nothing_trimmed = p.trim == 0 && (p.maxseg < 0 || p.maxseg == in_max_seg) && segs_tile && tof_tiles;
  if (dropped) ctx.count("ssrb_configs_with_dropped_bins"); else ctx.count("ssrb_configs_keeping_everything");
  if (nothing_trimmed) ctx.count("ssrb_configs_nothing_trimmed");

  shared_ptr<ProjDataInMemory> in = small::make_projdata(w.pdi, 0.F);
  shared_ptr<ProjDataInMemory> out = small::make_projdata(out_pdi, 0.F);
  std::map<BinKey, int> fan_in; // number of fine bins per output bin (vacuity: things must collide)
  std::map<BinKey, double> lin_from_columns;
  int label = 0;
  bool data_rejected = false;
  auto listing = [](const std::map<BinKey, float>& nz) { std::string s; int n = 0; for (auto& z : nz) { if (++n > 6) { s += "..."; break; } s += key_str(z.first) + "=" + vmc::str(z.second) + " "; } return s; };
  for (auto& kv : expect)
    {
      const BinKey& fb = kv.first;
      const Exp& e = kv.second;
      set_bin(*in, fb, 1.F);
      out->fill(7.F); // SSRB must overwrite everything
      if (small::throws([&] { SSRB(*out, *in, false); }, &why)) { data_rejected = true; break; }
      double total = 0;
      const std::map<BinKey, float> nz = read_all(*out, &total);
      set_bin(*in, fb, 0.F);
      ctx.count("evaluations");
      ctx.count("ssrb_basis_bins");
      ++label;
      for (auto& z : nz) lin_from_columns[z.first] += double(z.second) * label;
      if (e.present) fan_in[e.out]++;
      // compare
      if (e.present)
        {
          auto it = nz.find(e.out);
          if (nz.size() == 1 && it != nz.end() && it->second == 1.F) { /* ok */ }
          else if (nz.empty())
            ctx.violation("part=ssrb;clause=count_lost" + class_fields(w, p, "none"), kase, "unit count in fine bin " + key_str(fb) + " (output geometry assigns its detector pairs to " + key_str(e.out) + ") is absent after SSRB");
          else if (it != nz.end() && nz.size() == 1)
            ctx.violation("part=ssrb;clause=count_value" + class_fields(w, p, "none"), kase, "unit count in fine bin " + key_str(fb) + " arrives in " + key_str(e.out) + " with value " + vmc::str(it->second));
          else
            ctx.violation("part=ssrb;clause=count_misplaced" + class_fields(w, p, nz.size() == 1 ? diff_coords(nz.begin()->first, e.out) : std::string("multiple")), kase,
                          "unit count in fine bin " + key_str(fb) + ": output geometry assigns its detector pairs to " + key_str(e.out) + " but SSRB gives " + listing(nz));
          if (nothing_trimmed && std::fabs(total - 1.0) > 1e-6)
            ctx.violation("part=ssrb;clause=total_not_conserved" + class_fields(w, p, "none"), kase, "nothing trimmed but total after SSRB of a unit count in " + key_str(fb) + " is " + vmc::str(total));
        }
      else
        {
          if (!nz.empty())
            ctx.violation("part=ssrb;clause=count_not_dropped" + class_fields(w, p, e.outside), kase,
                          "unit count in fine bin " + key_str(fb) + ": the output geometry assigns its detector pairs to " + key_str(e.out) + " which is outside its " + e.outside
                              + " range, but after SSRB the count appears in " + listing(nz));
          if (nothing_trimmed)
            ctx.violation("part=ssrb;clause=total_not_conserved;by=output_geometry" + class_fields(w, p, e.outside), kase,
                          "no range trimmed, but the output ProjDataInfo of SSRB() has no bin for the detector pairs of fine bin " + key_str(fb) + " (" + e.outside + " out of range)");
        }
      ctx.nontrivial(kase + key_str(fb));
    }
  if (data_rejected)
    {
      ctx.count("rejected_configs");
      ctx.count("ssrb_rejected_by_SSRB_data");
      ctx.observe("SSRB(ProjDataInfo) accepted but SSRB(ProjData) threw: " + kase + " : " + why.substr(0, 150));
      return;
    }
  for (auto& kv : fan_in)
    {
      if (kv.second >= 2) ctx.count("ssrb_out_bins_with_2_or_more_fine_bins");
      ctx.maxi("ssrb_max_fine_bins_per_out_bin", kv.second);
    }
  // linearity: SSRB of the labelled superposition (fine bin i has value i) == sum of i * (measured column i)
  {
    int l = 0;
    for (auto& kv : expect) set_bin(*in, kv.first, float(++l));
    out->fill(7.F);
    SSRB(*out, *in, false);
    double total = 0;
    const std::map<BinKey, float> nz = read_all(*out, &total);
    ctx.count("evaluations");
    for (auto it = lin_from_columns.begin(); it != lin_from_columns.end();) { if (it->second == 0) it = lin_from_columns.erase(it); else ++it; }
    bool same = nz.size() == lin_from_columns.size();
    if (same) for (auto& kv : lin_from_columns) { auto it = nz.find(kv.first); if (it == nz.end() || double(it->second) != kv.second) { same = false; break; } }
    if (!same)
      ctx.violation("part=ssrb;clause=not_linear", kase, "SSRB of the labelled data set differs from the sum of the SSRBs of its unit counts (" + vmc::str(nz.size()) + " vs " + vmc::str(lin_from_columns.size()) + " non-zero bins, total " + vmc::str(total) + ")");
  }
  ctx.digest(kase + ":" + vmc::str(kept) + "/" + vmc::str(dropped));
  if (ctx.samples.size() < 3 && p.nsc > 1 && p.nvc > 1 && !expect.empty())
    {
      auto it = expect.begin(); std::advance(it, expect.size() / 2);
      ctx.sample(kase + " : fine bin " + key_str(it->first) + " (" + vmc::str(w.pairs_of_bin[it->first].size()) + " det pairs) -> " + (it->second.present ? key_str(it->second.out) : std::string("dropped")));
    }
}

static std::vector<Par> ssrb_params(const FineWorld& w, bool thorough)
{
  std::vector<Par> v;
  const int max_seg = w.pdi->get_max_segment_num();
  const int nviews = w.pdi->get_num_views();
  const int ntang = w.pdi->get_num_tangential_poss();
  const int ntof = w.pdi->get_num_tof_poss();
  std::vector<int> nscs; for (int n = 1; n <= 2 * max_seg + 1; n += 2) nscs.push_back(n);
  std::vector<int> nvcs; for (int n = 1; n <= nviews; ++n) if (nviews % n == 0) nvcs.push_back(n);
  std::vector<int> trims{ 0, 1 }; if (ntang > 3) trims.push_back(2); if (ntang - 1 > 2) trims.push_back(ntang - 1);
  std::vector<int> maxsegs{ -1 }; for (int s = 0; s <= max_seg; ++s) maxsegs.push_back(s);
  std::vector<int> ntcs{ 1 }; if (w.f.T > 0) for (int n = 2; n <= ntof + 1; ++n) ntcs.push_back(n);
  (void)thorough;
  for (int nsc : nscs) for (int nvc : nvcs) for (int trim : trims) for (int ms : maxsegs) for (int ntc : ntcs)
    { Par p; p.nsc = nsc; p.nvc = nvc; p.trim = trim; p.maxseg = ms; p.ntc = ntc; v.push_back(p); }
  return v;
}

static std::vector<Fine> ssrb_fines(bool thorough)
{
  std::vector<Fine> v;
  std::vector<std::pair<int, int>> DR;
  std::vector<int> Ts;
  if (thorough) { for (int D : { 8, 12, 16 }) for (int R = 1; R <= 4; ++R) DR.push_back({ D, R }); Ts = { 0, 3, 5, 7, 9 }; }
  else { DR = { { 8, 1 }, { 8, 2 }, { 8, 3 }, { 12, 2 } }; Ts = { 0, 3, 5 }; }
  // 5 rings, span 1, all 9 segments (non-TOF): the smallest geometry in which num_segments_to_combine = 3 gives COMPLETE oblique output
  // segments (input segments -4..-2 -> -1, 2..4 -> +1); with <= 4 rings every oblique group is incomplete
  DR.push_back({ 8, 5 });
  for (auto dr : DR)
    for (int T : Ts)
      {
        const int D = dr.first, R = dr.second;
        // bound (thorough): the TOF loop of SSRB does not interact with the segment/axial matching, so the number of unmashed TOF bins is
        // bounded by the scanner size (cost per configuration ~ bins^2): T<=9 for D*R<=24, T<=5 for D*R<=36, T<=3 for D*R<=48, non-TOF above
        if (T > 0 && (D > 12 || R > 3) && T > 5) continue;
        if (T > 5 && D * R > 24) continue;
        if (T > 3 && D * R > 36) continue;
        if (T > 0 && D * R > 48) continue;
        if (R == 5 && T > 0) continue;
        for (int span = 1; span <= (R == 5 ? 1 : 2 * R - 1); span += 2)
          for (int md = (R == 5 ? R - 1 : (span - 1) / 2); md <= R - 1; ++md)
            for (int vm = 1; vm <= D / 2; ++vm)
              {
                if ((D / 2) % vm) continue;
                std::vector<int> tgs{ D / 2, D / 2 - 1 }; if (D / 2 - 1 > 3) tgs.push_back(3);
                for (int tg : tgs)
                  {
                    std::vector<int> tms{ 0 };
                    if (T > 0) { tms.clear(); for (int m = 1; m <= T; ++m) if ((T / m) % 2 == 1) tms.push_back(m); }
                    for (int tm : tms)
                      {
                        Fine f; f.D = D; f.R = R; f.T = T; f.span = span; f.md = md; f.vm = vm; f.tg = tg; f.tm = tm;
                        v.push_back(f);
                      }
                  }
              }
      }
  return v;
}

// =================================================================================================== zoom
struct Grid { int nz, ny, nx, y0, x0; float vz, vy, vx, oz, oy, ox; };
static const Grid grids[] = {
  // nz ny nx  y0  x0   voxel z,y,x        origin z,y,x
  { 2, 3, 4, -1, -2, 3.0F, 2.0F, 2.5F, 0.F, 0.F, 0.F },     // standard STIR index convention, anisotropic, even/odd sizes
  { 3, 4, 3, 0, -1, 2.0F, 2.0F, 2.0F, 4.5F, -1.0F, 2.0F },  // y range starting at 0, non-zero origin
  { 1, 5, 5, -2, -2, 4.0F, 1.5F, 1.5F, 0.F, 3.0F, 0.F },    // single plane
  { 4, 3, 3, -1, -1, 1.0F, 3.0F, 2.0F, -2.0F, 0.F, 0.F },   // more planes than pixels
};
static const float zoom_vals[] = { 0.3F, 0.5F, 1.F, 1.7F, 2.F, 3.F };
// offsets: index into {0, +half input voxel, -half input voxel, +3.3 mm, -3.3 mm}
static float offset_val(int code, float voxel) { switch (code) { case 0: return 0.F; case 1: return voxel / 2; case 2: return -voxel / 2; case 3: return 3.3F; default: return -3.3F; } }
// size modes: 0 auto = ceil(zoom*n), 1 smaller = max(1,auto-2), 2 larger = auto+3
static int size_val(int mode, float zoom, int n) { const int a = (int)std::ceil(zoom * n - 1e-4); return mode == 0 ? a : (mode == 1 ? std::max(1, a - 2) : a + 3); }

struct ZCase { int g = 0, zxy = 2, zz = 2, oz = 0, oy = 0, ox = 0, sxy = 0, sz = 0; };
static std::string zcase_str(const ZCase& c)
{
  return "part=zoom;g=" + vmc::str(c.g) + ";zxy=" + vmc::str(c.zxy) + ";zz=" + vmc::str(c.zz) + ";oz=" + vmc::str(c.oz) + ";oy=" + vmc::str(c.oy) + ";ox=" + vmc::str(c.ox)
         + ";sxy=" + vmc::str(c.sxy) + ";sz=" + vmc::str(c.sz);
}

typedef VoxelsOnCartesianGrid<float> Vox;
static Vox make_grid(const Grid& g)
{
  return Vox(IndexRange3D(0, g.nz - 1, g.y0, g.y0 + g.ny - 1, g.x0, g.x0 + g.nx - 1), CartesianCoordinate3D<float>(g.oz, g.oy, g.ox),
             CartesianCoordinate3D<float>(g.vz, g.vy, g.vx));
}
struct Moments { double sum = 0, m[3] = { 0, 0, 0 }; double maxabs = 0; };
static Moments moments(const Vox& im)
{
  Moments r;
  const CartesianCoordinate3D<float> vs = im.get_voxel_size(), o = im.get_origin();
  for (int z = im.get_min_z(); z <= im.get_max_z(); ++z)
    for (int y = im.get_min_y(); y <= im.get_max_y(); ++y)
      for (int x = im.get_min_x(); x <= im.get_max_x(); ++x)
        {
          const double v = im[z][y][x];
          r.sum += v;
          r.m[0] += v * (double(z) * vs.z() + o.z());
          r.m[1] += v * (double(y) * vs.y() + o.y());
          r.m[2] += v * (double(x) * vs.x() + o.x());
          r.maxabs = std::max(r.maxabs, std::fabs(v));
        }
  return r;
}
// physical extent [lo,hi] per dimension (0=z,1=y,2=x) of the boxes of the voxels in an index box
struct Ext { double lo[3], hi[3]; };
static Ext extent(const Vox& im, int z0, int z1, int y0, int y1, int x0, int x1)
{
  const CartesianCoordinate3D<float> vs = im.get_voxel_size(), o = im.get_origin();
  Ext e;
  e.lo[0] = (z0 - .5) * vs.z() + o.z(); e.hi[0] = (z1 + .5) * vs.z() + o.z();
  e.lo[1] = (y0 - .5) * vs.y() + o.y(); e.hi[1] = (y1 + .5) * vs.y() + o.y();
  e.lo[2] = (x0 - .5) * vs.x() + o.x(); e.hi[2] = (x1 + .5) * vs.x() + o.x();
  return e;
}
static Ext extent(const Vox& im) { return extent(im, im.get_min_z(), im.get_max_z(), im.get_min_y(), im.get_max_y(), im.get_min_x(), im.get_max_x()); }
// +1: a strictly inside b (margin), -1: clearly not inside, 0: on a tie (within margin of a border)
static int inside(const Ext& a, const Ext& b, const double margin[3])
{
  int r = 1;
  for (int d = 0; d < 3; ++d)
    {
      const double l = a.lo[d] - b.lo[d], h = b.hi[d] - a.hi[d];
      if (l < -margin[d] || h < -margin[d]) return -1;
      if (l < margin[d] || h < margin[d]) r = 0;
    }
  return r;
}
static bool same_grid(const Vox& a, const Vox& b, double tol_mm)
{
  if (!(a.get_index_range() == b.get_index_range())) return false;
  for (int d = 1; d <= 3; ++d)
    if (std::fabs(a.get_origin()[d] - b.get_origin()[d]) > tol_mm || std::fabs(a.get_voxel_size()[d] - b.get_voxel_size()[d]) > 1e-5 * a.get_voxel_size()[d]) return false;
  return true;
}
static double max_diff(const Vox& a, const Vox& b)
{
  double m = 0;
  auto ia = a.begin_all_const(); auto ib = b.begin_all_const();
  for (; ia != a.end_all_const(); ++ia, ++ib) m = std::max(m, (double)std::fabs(*ia - *ib));
  return m;
}
static const char* opt_name(int o) { return o == 0 ? "preserve_sum" : (o == 1 ? "preserve_values" : "preserve_projections"); }
static ZoomOptions opt_of(int o) { return o == 0 ? ZoomOptions(ZoomOptions::preserve_sum) : (o == 1 ? ZoomOptions(ZoomOptions::preserve_values) : ZoomOptions(ZoomOptions::preserve_projections)); }

static void run_zoom(vmc::Ctx& ctx, const ZCase& c)
{
  const std::string kase = zcase_str(c);
  ctx.current("part=zoom", kase);
  const Grid& g = grids[c.g];
  const float zxy = zoom_vals[c.zxy], zz = zoom_vals[c.zz];
  const CartesianCoordinate3D<float> zooms(zz, zxy, zxy);
  const CartesianCoordinate3D<float> offs(offset_val(c.oz, g.vz), offset_val(c.oy, g.vy), offset_val(c.ox, g.vx));
  // the transaxial-only API has ONE new size for x and y: use the larger of the two automatic sizes
  const int nxy_auto_from = std::max(g.nx, g.ny);
  const int new_xy = size_val(c.sxy, zxy, nxy_auto_from), new_z = size_val(c.sz, zz, g.nz);
  const Coordinate3D<int> new_sizes(new_z, new_xy, new_xy);
  const std::string cls = std::string(";zoom_xy=") + (zxy == 1.F ? "1" : (zxy < 1 ? "<1" : ">1")) + ";zoom_z=" + (zz == 1.F ? "1" : (zz < 1 ? "<1" : ">1"));
  ctx.count("zoom_configs");

  const Vox proto = make_grid(g);
  const double din[3] = { g.vz, g.vy, g.vx };
  // ---- images
  struct Img { std::string name; Vox im; int z0, z1, y0, y1, x0, x1; /* support box (indices) */ };
  std::vector<Img> imgs;
  for (int z = proto.get_min_z(); z <= proto.get_max_z(); ++z)
    for (int y = proto.get_min_y(); y <= proto.get_max_y(); ++y)
      for (int x = proto.get_min_x(); x <= proto.get_max_x(); ++x)
        {
          Img i{ "unit(" + vmc::str(z) + "," + vmc::str(y) + "," + vmc::str(x) + ")", proto, z, z, y, y, x, x };
          i.im.fill(0.F); i.im[z][y][x] = 1.F;
          imgs.push_back(i);
        }
  const size_t n_unit = imgs.size();
  {
    // uniform block = whole image with value 2; and (if possible) an interior block leaving a zero border in x and y
    Img b{ "uniform_all", proto, proto.get_min_z(), proto.get_max_z(), proto.get_min_y(), proto.get_max_y(), proto.get_min_x(), proto.get_max_x() };
    b.im.fill(2.F); imgs.push_back(b);
    if (g.nx >= 3 && g.ny >= 3)
      {
        Img b2{ "uniform_block", proto, proto.get_min_z(), proto.get_max_z(), proto.get_min_y() + 1, proto.get_max_y(), proto.get_min_x(), proto.get_max_x() - 1 };
        b2.im.fill(0.F);
        for (int z = b2.z0; z <= b2.z1; ++z) for (int y = b2.y0; y <= b2.y1; ++y) for (int x = b2.x0; x <= b2.x1; ++x) b2.im[z][y][x] = 2.F;
        imgs.push_back(b2);
      }
    Img l{ "labelled", proto, proto.get_min_z(), proto.get_max_z(), proto.get_min_y(), proto.get_max_y(), proto.get_min_x(), proto.get_max_x() };
    int k = 0; for (auto it = l.im.begin_all(); it != l.im.end_all(); ++it) *it = float(++k);
    imgs.push_back(l);
  }

  std::string why;
  Vox basis_sum; bool have_basis_sum = false;
  for (size_t ii = 0; ii < imgs.size(); ++ii)
    {
      const Img& I = imgs[ii];
      const bool is_unit = ii < n_unit;
      for (int o = 0; o < 3; ++o)
        {
          if (is_unit && o != 0) continue; // unit voxels: preserve_sum (the other options are the same map times a constant; checked on the other images)
          Vox one;
          if (small::throws([&] { one = zoom_image(I.im, zooms, offs, new_sizes, opt_of(o)); }, &why))
            {
              ctx.count("rejected_configs");
              ctx.observe("zoom_image rejected " + kase + ": " + why.substr(0, 120));
              return;
            }
          ctx.count("evaluations");
          const Moments mi = moments(I.im), mo = moments(one);
          const double dout[3] = { one.get_voxel_size().z(), one.get_voxel_size().y(), one.get_voxel_size().x() };
          const double margin[3] = { 1e-3 * (din[0] + dout[0]), 1e-3 * (din[1] + dout[1]), 1e-3 * (din[2] + dout[2]) };
          const Ext sup = extent(I.im, I.z0, I.z1, I.y0, I.y1, I.x0, I.x1);
          const Ext oext = extent(one);
          const int cov = inside(sup, oext, margin);
          const std::string ikind = is_unit ? "unit" : I.name;
          if (o == 0)
            {
              if (cov == 0) ctx.count("zoom_screened_support_on_border_tie");
              else if (cov < 0) ctx.count("zoom_support_not_covered");
              else
                {
                  ctx.count("zoom_covered_cases");
                  ctx.nontrivial(kase + I.name);
                  if (std::fabs(mo.sum - mi.sum) > 1e-5 * std::fabs(mi.sum))
                    ctx.violation("part=zoom;clause=sum;image=" + ikind + cls, kase, I.name + ": output grid covers the support but sum " + vmc::str(mi.sum) + " -> " + vmc::str(mo.sum));
                  else
                    {
                      const char* dn[3] = { "z", "y", "x" };
                      for (int d = 0; d < 3; ++d)
                        {
                          const double ci = mi.m[d] / mi.sum, co = mo.m[d] / mo.sum;
                          const double bound = 0.5 * (din[d] + dout[d]);
                          if (std::fabs(ci - co) > bound * (1 + 1e-4))
                            ctx.violation(std::string("part=zoom;clause=centre_of_mass;dim=") + dn[d] + ";image=" + ikind + cls, kase,
                                          I.name + ": centre of mass " + dn[d] + " " + vmc::str(ci) + " mm -> " + vmc::str(co) + " mm, allowed " + vmc::str(bound) + " mm");
                          else if (std::fabs(ci - co) > 0.5 * dout[d] * (1 + 1e-3) + 1e-4)
                            ctx.count("zoom_com_shift_above_half_output_voxel");
                          ctx.maxi("zoom_max_com_shift_permille_of_bound", (long long)(1000 * std::fabs(ci - co) / bound));
                        }
                    }
                }
              if (is_unit)
                {
                  if (!have_basis_sum) { basis_sum = one; basis_sum.fill(0.F); have_basis_sum = true; }
                }
            }
          if (o == 1 && !is_unit && I.name != "labelled")
            {
              // value-preserving zoom: output voxels whose box lies strictly inside the uniform block's support have the block's value
              long long interior = 0;
              for (int z = one.get_min_z(); z <= one.get_max_z(); ++z)
                for (int y = one.get_min_y(); y <= one.get_max_y(); ++y)
                  for (int x = one.get_min_x(); x <= one.get_max_x(); ++x)
                    {
                      const Ext vb = extent(one, z, z, y, y, x, x);
                      const int ins = inside(vb, sup, margin);
                      if (ins == 0) ctx.count("zoom_screened_voxel_on_block_border_tie");
                      if (ins <= 0) continue;
                      ++interior;
                      if (std::fabs(one[z][y][x] - 2.F) > 2e-5)
                        {
                          ctx.violation("part=zoom;clause=uniform_interior;image=" + ikind + cls, kase,
                                        I.name + ": output voxel (" + vmc::str(z) + "," + vmc::str(y) + "," + vmc::str(x) + ") lies inside the uniform block (value 2) but is " + vmc::str(one[z][y][x]));
                          z = one.get_max_z() + 1; y = one.get_max_y() + 1; break;
                        }
                    }
              ctx.count("zoom_uniform_interior_voxels_checked", interior);
              if (interior) ctx.count("zoom_uniform_cases_with_interior");
            }
          // ---- variants (all options) on the non-unit images; two-step also on the unit images
          const double tol = 1e-5 * std::max(mo.maxabs, mi.maxabs) + 1e-12;
          {
            // two-step: separately constructed output image with the geometry of the one-call result
            Vox two(one.get_index_range(), one.get_origin(), one.get_grid_spacing());
            two.fill(-3.F);
            zoom_image(two, I.im, opt_of(o));
            ctx.count("evaluations");
            const double d = max_diff(one, two);
            if (d > tol)
              ctx.violation(std::string("part=zoom;clause=variants;variant=two_step;option=") + opt_name(o) + cls, kase, I.name + ": zoom_image(out,in) differs from zoom_image(in,zooms,offsets,sizes) by " + vmc::str(d));
          }
          if (!is_unit)
            {
              Vox inpl = I.im;
              zoom_image_in_place(inpl, zooms, offs, new_sizes, opt_of(o));
              ctx.count("evaluations");
              if (!same_grid(inpl, one, 1e-4))
                ctx.violation(std::string("part=zoom;clause=variants;variant=in_place_grid;option=") + opt_name(o) + cls, kase, I.name + ": zoom_image_in_place result has a different grid than zoom_image");
              else
                {
                  const double d = max_diff(one, inpl);
                  if (d > tol)
                    ctx.violation(std::string("part=zoom;clause=variants;variant=in_place;option=") + opt_name(o) + cls, kase, I.name + ": zoom_image_in_place differs from zoom_image by " + vmc::str(d));
                }
              if (c.zz == 2 && c.oz == 0 && new_z == g.nz)
                {
                  // transaxial-only API (one call and in place) == 3D API with zooms (1,z,z), offsets (0,y,x), sizes (nz,n,n)
                  Vox t2 = zoom_image(I.im, zxy, offs.x(), offs.y(), new_xy, opt_of(o));
                  Vox t2i = I.im;
                  zoom_image_in_place(t2i, zxy, offs.x(), offs.y(), new_xy, opt_of(o));
                  ctx.count("evaluations", 2);
                  ctx.count("zoom_transaxial_api_compared");
                  const bool shortcut = zxy == 1.F && offs.x() == 0 && offs.y() == 0 && new_xy == g.nx; // returns the input unchanged (documented shortcut)
                  if (!same_grid(t2, one, 1e-4))
                    {
                      if (shortcut && g.nx != g.ny) ctx.count("zoom_transaxial_shortcut_nonsquare_skipped");
                      else
                        ctx.violation(std::string("part=zoom;clause=variants;variant=transaxial_api_grid;option=") + opt_name(o) + cls, kase, I.name + ": zoom_image(image,zoom,x_off,y_off,size) grid differs from the 3D call with the same parameters");
                    }
                  else
                    {
                      const double d = max_diff(one, t2), d2 = max_diff(t2, t2i);
                      if (d > tol)
                        ctx.violation(std::string("part=zoom;clause=variants;variant=transaxial_api;option=") + opt_name(o) + cls, kase, I.name + ": zoom_image(image,zoom,x_off,y_off,size) differs from the 3D call by " + vmc::str(d));
                      if (d2 > tol || !same_grid(t2, t2i, 1e-4))
                        ctx.violation(std::string("part=zoom;clause=variants;variant=transaxial_in_place;option=") + opt_name(o) + cls, kase, I.name + ": transaxial zoom_image_in_place differs from zoom_image by " + vmc::str(d2));
                    }
                }
            }
          if (is_unit && o == 0) basis_sum += one;
          if (!is_unit && o == 0 && I.name == "uniform_all" && have_basis_sum)
            {
              // linearity: zoom(2 * sum of unit voxels) == 2 * sum of zoom(unit voxel)
              Vox twice = basis_sum; twice *= 2.F;
              const double d = max_diff(twice, one);
              if (d > 1e-5 * 2.0 * imgs.size())
                ctx.violation("part=zoom;clause=not_linear" + cls, kase, "zoom of the uniform image differs from the sum of the zoomed unit voxels by " + vmc::str(d));
            }
          if (ii == n_unit + 1 && o == 0) ctx.digest(kase + vmc::str(mo.sum));
        }
    }
  if (ctx.samples.size() < 6 && c.zxy == 3 && c.zz == 1 && c.ox == 3 && c.oy == 2)
    ctx.sample(kase + " : zoom_xy=" + vmc::str(zxy) + " zoom_z=" + vmc::str(zz) + " offsets(z,y,x)=" + vmc::str(offs.z()) + "," + vmc::str(offs.y()) + "," + vmc::str(offs.x()) + " new sizes " + vmc::str(new_z) + "x" + vmc::str(new_xy) + "x" + vmc::str(new_xy));
}

// =================================================================================================== main
int main(int argc, char** argv)
{
  vmc::Ctx ctx(argc, argv, "C15");
  small::quiet();
  ctx.rule = "ssrb: one evaluation = SSRB(out,in,no normalisation) of a unit count in ONE fine bin (every fine bin that receives >=1 detector pair, i.e. the full column basis of the "
             "linear map) for one (scanner, fine sampling, SSRB parameter tuple); distinct = (configuration, fine bin). zoom: one evaluation = one zoom call on one image (every unit "
             "voxel, two uniform blocks, a labelled image) for one (grid, zoom_xy, zoom_z, 3 offsets, 2 size modes); non-trivial = output grid covers the support (geometric test) so "
             "that the conservation clauses apply";
  ctx.assume("SSRB: the reference is ProjDataInfoCylindricalNoArcCorr::get_bin_for_det_pos_pair of the input and of the output geometry (C01's subject, trusted here); counts are small integers, compared exactly");
  ctx.assume("SSRB: 'no range trimmed' := num_tang_poss_to_trim=0, max_segment_to_process = all, (number of input segments) % num_segments_to_combine == 0 and (number of input TOF bins) % num_tof_bins_to_combine == 0");
  ctx.assume("SSRB: fine bins that receive no detector pair are not constrained by the statement and are left out of the basis; configurations rejected with error() are counted, not failures");
  ctx.assume("zoom: voxel i occupies [(i-1/2)*size+origin, (i+1/2)*size+origin] per axis; 'output grid covers the object' := that box of the support lies inside the union of the output voxel boxes by more than 1e-3*(size_in+size_out) (cases within that margin of a border are screened and counted)");
  ctx.assume("zoom: sum conserved to 1e-5 relative; centre of mass compared PER AXIS with half the sum of the input and output voxel size along that axis (+1e-4 relative); uniform interior: |v-2| <= 2e-5; variants agree to 1e-5*max|value|");
  ctx.assume("zoom: input images have z index range starting at 0 (STIR convention; zoom_image(image,zoom,...) indexes the new image with the input's plane numbers)");

  if (ctx.replaying())
    {
      auto m = vmc::kv(ctx.replay);
      auto I = [&](const char* k, int d) { return m.count(k) ? atoi(m[k].c_str()) : d; };
      if (m["part"] == "ssrb")
        {
          FineWorld w;
          w.f.D = I("D", 8); w.f.R = I("R", 2); w.f.T = I("T", 0); w.f.span = I("span", 1); w.f.md = I("md", 1); w.f.vm = I("vm", 1); w.f.tg = I("tg", 4); w.f.tm = I("tm", 0);
          Par p; p.nsc = I("nsc", 1); p.nvc = I("nvc", 1); p.trim = I("trim", 0); p.maxseg = I("maxseg", -1); p.ntc = I("ntc", 1);
          std::string why;
          if (!w.build(&why)) { fprintf(stderr, "fine geometry rejected: %s\n", why.c_str()); return ctx.finish(); }
          run_ssrb(ctx, w, p);
        }
      else
        {
          ZCase c; c.g = I("g", 0); c.zxy = I("zxy", 2); c.zz = I("zz", 2); c.oz = I("oz", 0); c.oy = I("oy", 0); c.ox = I("ox", 0); c.sxy = I("sxy", 0); c.sz = I("sz", 0);
          run_zoom(ctx, c);
        }
      return ctx.finish();
    }

  const bool th = ctx.thorough();
  uint64_t unit = 0;
  // ---------------- zoom: unit = (grid, zoom_xy, zoom_z, offset z)
  {
    const int ngrids = th ? 4 : 2;
    const std::vector<int> offc = th ? std::vector<int>{ 0, 1, 2, 3, 4 } : std::vector<int>{ 0, 1, 4 };
    for (int g = 0; g < ngrids; ++g)
      for (int zxy = 0; zxy < 6; ++zxy)
        for (int zz = 0; zz < 6; ++zz)
          for (int oz : offc)
            {
              if (!ctx.mine(unit++)) continue;
              if (ctx.expired()) break;
              for (int oy : offc)
                for (int ox : (th ? offc : std::vector<int>{ 0, 2, 3 }))
                  for (int sxy = 0; sxy < 3; ++sxy)
                    for (int sz = 0; sz < 3; ++sz)
                      {
                        if (!th && sz != sxy) continue; // quick: sizes varied jointly
                        ZCase c; c.g = g; c.zxy = zxy; c.zz = zz; c.oz = oz; c.oy = oy; c.ox = ox; c.sxy = sxy; c.sz = sz;
                        run_zoom(ctx, c);
                      }
            }
    ctx.maxi("zoom_grids", ngrids);
  }
  // ---------------- SSRB: unit = fine geometry
  {
    const std::vector<Fine> fines = ssrb_fines(th);
    uint64_t fine_index = 0;
    for (const Fine& f : fines)
      {
        if (ctx.expired()) break;
        // unit of sharding = (fine geometry, parameter tuple); the fine geometry itself is rebuilt in every shard (cheap)
        const bool count_here = (int)(fine_index++ % (uint64_t)ctx.nshards) == ctx.shard;
        FineWorld w; w.f = f;
        std::string why;
        ctx.current("part=ssrb", fine_str(f));
        if (!w.build(&why)) { if (count_here) { ctx.count("rejected_configs"); ctx.count("ssrb_fine_geometry_rejected"); } continue; }
        if (count_here)
          {
            ctx.count("ssrb_fine_geometries");
            ctx.count("ssrb_det_pairs_enumerated", w.num_pairs);
            long long multi = 0; for (auto& kv : w.pairs_of_bin) if (kv.second.size() > 2) ++multi;
            ctx.count("ssrb_fine_bins_with_more_than_2_pairs", multi);
          }
        ctx.maxi("ssrb_max_D", f.D); ctx.maxi("ssrb_max_R", f.R); ctx.maxi("ssrb_max_T", f.T);
        for (const Par& p : ssrb_params(w, th))
          {
            if (!ctx.mine(unit++)) continue;
            if (ctx.expired()) break;
            run_ssrb(ctx, w, p);
          }
      }
  }
  return ctx.finish();
}
