// C09 - priors: value / gradient / Hessian are mutually consistent and convex.
//
// Bounded-exhaustive enumeration (shape E) on the real QuadraticPrior, RelativeDifferencePrior (epsilon>0),
// LogcoshPrior and PLSPrior:
//   configuration = prior (+parameters) x image size x voxel spacing x neighbourhood weights x kappa
//   input         = uniform background with <= 2 deviating voxels at ALL placements (small grids), every voxel as
//                   Hessian row, unit / neighbour-pair / labelled directions (+ <= 3 deviations for H x vector, thorough)
// Oracle: (a) an independent double-precision implementation of the documented potentials (value, d/dx_j, d2) summed
// over in-image neighbour pairs only, with the weights actually in force (read back with get_weights());
// (b) relations that do not use the reference: gradient vs 4th-order central difference of STIR's own compute_value,
// H.v vs central difference of STIR's own compute_gradient, Hessian row j == H e_j, symmetry, v^T H v >= -tol and a
// dense eigenvalue check for is_convex() priors, linearity in the penalisation factor, gradient(uniform) == 0.
//
// A work unit is one configuration; a case is (configuration, image); every case uses a FRESH prior object.
#include "vmc.h"
#include "stir_small.h"
#include "stir/recon_buildblock/QuadraticPrior.h"
#include "stir/recon_buildblock/RelativeDifferencePrior.h"
#include "stir/recon_buildblock/LogcoshPrior.h"
#include "stir/recon_buildblock/PLSPrior.h"
#include "stir/IndexRange3D.h"
#include "stir/Succeeded.h"
#include <algorithm>
#include <array>
#include <memory>

using namespace stir;
typedef DiscretisedDensity<3, float> Dens;
typedef VoxelsOnCartesianGrid<float> Vox;
typedef GeneralisedPrior<Dens> Prior;

static const double EPSF = 1.1920929e-7; // 2^-23

// ------------------------------------------------------------------------------------------------ configuration
struct Cfg
{
  std::string prior = "Q"; // Q | R | L | P
  double p1 = 0, p2 = 0;   // R: epsilon,gamma   L: scalar   P: alpha, eta
  int anat = 0;            // P: 0 uniform anatomical image, 1 labelled
  int nz = 1, ny = 1, nx = 1;
  int sp = 0;              // 0: (1,1,1)   1: (z,y,x)=(3,1,2)
  std::string w = "def";   // def | u3 | u5 | 2d | stale   (PLS: def | 2d)
  int kappa = 0;
  std::string str() const
  {
    return "prior=" + prior + ";p1=" + vmc::str(p1) + ";p2=" + vmc::str(p2) + ";anat=" + vmc::str(anat) + ";size=" + vmc::str(nz) + ","
           + vmc::str(ny) + "," + vmc::str(nx) + ";sp=" + vmc::str(sp) + ";w=" + w + ";kappa=" + vmc::str(kappa);
  }
  static Cfg parse(const std::string& s)
  {
    auto m = vmc::kv(s);
    Cfg c;
    c.prior = m["prior"]; c.p1 = atof(m["p1"].c_str()); c.p2 = atof(m["p2"].c_str()); c.anat = atoi(m["anat"].c_str());
    auto sz = vmc::ints(m["size"]); c.nz = sz[0]; c.ny = sz[1]; c.nx = sz[2];
    c.sp = atoi(m["sp"].c_str()); c.w = m["w"]; c.kappa = atoi(m["kappa"].c_str());
    return c;
  }
  int N() const { return nz * ny * nx; }
  std::string pname() const { return prior == "Q" ? "Quadratic" : prior == "R" ? "RDP" : prior == "L" ? "Logcosh" : "PLS"; }
  std::string key(const std::string& clause) const { return "prior=" + pname() + ";clause=" + clause + ";weights=" + w + ";kappa=" + vmc::str(kappa); }
};

struct Grid
{
  int nz, ny, nx, z0, y0, x0;
  explicit Grid(const Cfg& c) : nz(c.nz), ny(c.ny), nx(c.nx), z0(0), y0(-(c.ny / 2)), x0(-(c.nx / 2)) {}
  int N() const { return nz * ny * nx; }
  int idx(int z, int y, int x) const { return (z * ny + y) * nx + x; } // 0-based offsets
  void coords(int j, int& z, int& y, int& x) const { x = j % nx; y = (j / nx) % ny; z = j / (nx * ny); }
  bool inside(int z, int y, int x) const { return z >= 0 && z < nz && y >= 0 && y < ny && x >= 0 && x < nx; }
};

static shared_ptr<Vox> make_vox(const Cfg& c, float fill = 0.F)
{
  Grid g(c);
  const CartesianCoordinate3D<float> spacing = c.sp == 0 ? CartesianCoordinate3D<float>(1.F, 1.F, 1.F) : CartesianCoordinate3D<float>(3.F, 1.F, 2.F);
  shared_ptr<Vox> im(new Vox(IndexRange3D(g.z0, g.z0 + g.nz - 1, g.y0, g.y0 + g.ny - 1, g.x0, g.x0 + g.nx - 1),
                             CartesianCoordinate3D<float>(0.F, 0.F, 0.F), spacing));
  im->fill(fill);
  return im;
}
static void set_flat(Vox& im, const std::vector<double>& v)
{
  size_t k = 0;
  for (auto it = im.begin_all(); it != im.end_all(); ++it) *it = (float)v[k++];
}
static std::vector<double> get_flat(const Dens& im)
{
  std::vector<double> v;
  for (auto it = im.begin_all_const(); it != im.end_all_const(); ++it) v.push_back((double)*it);
  return v;
}

// labelled data sets (every value exactly representable in float)
static double kappa_label(int j) { return 0.5 + ((j * 7) % 16) / 16.0; }
static double anat_label(int j) { return ((j * 5) % 13) / 4.0; }
static double dir_label(int j) { return (((j * 11) % 17) - 8) / 8.0 + 0.0625; } // mixed signs, never 0

// ------------------------------------------------------------------------------------------------ weights in force
struct Weights
{
  int zlo = 0, zhi = -1, ylo = 0, yhi = -1, xlo = 0, xhi = -1;
  std::vector<double> w;
  bool has(int dz, int dy, int dx) const { return dz >= zlo && dz <= zhi && dy >= ylo && dy <= yhi && dx >= xlo && dx <= xhi; }
  double at(int dz, int dy, int dx) const { return has(dz, dy, dx) ? w[((dz - zlo) * (yhi - ylo + 1) + (dy - ylo)) * (xhi - xlo + 1) + (dx - xlo)] : 0.0; }
  static Weights from(const Array<3, float>& a)
  {
    Weights r;
    if (a.size() == 0) return r;
    r.zlo = a.get_min_index(); r.zhi = a.get_max_index();
    r.ylo = a[r.zlo].get_min_index(); r.yhi = a[r.zlo].get_max_index();
    r.xlo = a[r.zlo][r.ylo].get_min_index(); r.xhi = a[r.zlo][r.ylo].get_max_index();
    for (int z = r.zlo; z <= r.zhi; ++z) for (int y = r.ylo; y <= r.yhi; ++y) for (int x = r.xlo; x <= r.xhi; ++x) r.w.push_back(a[z][y][x]);
    return r;
  }
  bool symmetric_zero_centre() const
  {
    if (at(0, 0, 0) != 0) return false;
    for (int z = zlo; z <= zhi; ++z) for (int y = ylo; y <= yhi; ++y) for (int x = xlo; x <= xhi; ++x)
      if (at(z, y, x) != at(-z, -y, -x)) return false;
    return true;
  }
  double sum_abs() const { double s = 0; for (double v : w) s += std::fabs(v); return s; }
  std::string str() const { std::string s = "[" + vmc::str(zlo) + ":" + vmc::str(zhi) + "," + vmc::str(ylo) + ":" + vmc::str(yhi) + "," + vmc::str(xlo) + ":" + vmc::str(xhi) + "]"; for (double v : w) s += " " + vmc::str(v); return s; }
};

// user weights: labelled (all direction pairs +-d carry a distinct value), symmetric, zero centre; asym: all distinct incl. centre
static Array<3, float> user_weights(int r, bool asym)
{
  Array<3, float> a(IndexRange3D(-r, r, -r, r, -r, r));
  const int n = 2 * r + 1;
  for (int z = -r; z <= r; ++z) for (int y = -r; y <= r; ++y) for (int x = -r; x <= r; ++x)
    {
      int id = ((z + r) * n + (y + r)) * n + (x + r);
      const int idm = ((-z + r) * n + (-y + r)) * n + (-x + r);
      if (!asym) id = std::min(id, idm);
      double v = (r == 1 ? 0.25 + id / 16.0 : 0.125 + id / 64.0);
      if (!asym && z == 0 && y == 0 && x == 0) v = 0;
      a[z][y][x] = (float)v;
    }
  return a;
}

// ------------------------------------------------------------------------------------------------ pair potentials (reference, double)
// f = beta * sum_r sum_dr w_dr psi(x_r, x_{r+dr}) kappa_r kappa_{r+dr}     (class documentation of the three priors)
struct Pot
{
  char kind = 'Q'; double eps = 0, gamma = 0, s = 1;
  double psi(double x, double y) const
  {
    const double u = x - y;
    if (kind == 'Q') return 0.25 * u * u;
    if (kind == 'R') return 0.5 * u * u / (x + y + gamma * std::fabs(u) + eps);
    return std::log(std::cosh(s * u)) / (2 * s * s);
  }
  // d psi / d x
  double d1(double x, double y) const
  {
    const double u = x - y;
    if (kind == 'Q') return 0.5 * u;
    if (kind == 'R')
      {
        const double D = x + y + gamma * std::fabs(u) + eps, Dx = 1 + gamma * (u > 0 ? 1 : u < 0 ? -1 : 0);
        return 0.5 * (2 * u * D - u * u * Dx) / (D * D);
      }
    return std::tanh(s * u) / (2 * s);
  }
  // d2 psi / dx2   and   d2 psi / dx dy   -- obtained by differentiating the quotient, NOT the closed forms used in STIR
  double d20(double x, double y) const
  {
    const double u = x - y;
    if (kind == 'Q') return 0.5;
    if (kind == 'R')
      {
        const double sg = (u > 0 ? 1 : u < 0 ? -1 : 0);
        const double D = x + y + gamma * std::fabs(u) + eps, Dx = 1 + gamma * sg;
        // psi = u^2/(2D):  psi_xx = 1/D - 2 u Dx/D^2 + u^2 Dx^2/D^3   (D_xx = 0 away from u=0; at u=0 the u^2 factor kills it)
        return 1 / D - 2 * u * Dx / (D * D) + u * u * Dx * Dx / (D * D * D);
      }
    const double c = std::cosh(s * u);
    return 0.5 / (c * c);
  }
  double d11(double x, double y) const
  {
    const double u = x - y;
    if (kind == 'Q') return -0.5;
    if (kind == 'R')
      {
        const double sg = (u > 0 ? 1 : u < 0 ? -1 : 0);
        const double D = x + y + gamma * std::fabs(u) + eps, Dx = 1 + gamma * sg, Dy = 1 - gamma * sg;
        // psi_xy = -1/D - u (Dy - Dx)/D^2 ... written out: d/dy [ u/D - u^2 Dx/(2 D^2) ]
        return -1 / D - u * Dy / (D * D) + u * Dx / (D * D) + u * u * Dx * Dy / (D * D * D);
      }
    const double c = std::cosh(s * u);
    return -0.5 / (c * c);
  }
  // magnitude of the float rounding noise (in units of eps_float) of one evaluated value term
  double noise(double x, double y) const
  {
    if (kind == 'L') return (1 + std::fabs(std::log(std::cosh(s * (x - y))))) / (2 * s * s);
    return std::fabs(psi(x, y)) + 1e-30;
  }
  // |jump of psi''' at x==y| : only RDP with gamma>0 (psi ~ u^2/(2S) - gamma |u|^3/(2 S^2))
  double kink3(double x, double y) const { if (kind != 'R' || gamma == 0) return 0; const double S = x + y + eps; return 6 * gamma / (S * S); }
};

struct Ref
{
  Grid g; Weights W; Pot pot; std::vector<double> kap; double beta = 1;
  bool pls = false, only2d = false; double alpha = 1, eta = 1; std::vector<double> anat;
  explicit Ref(const Cfg& c) : g(c) {}

  template <class F> void for_pairs(int j, F f) const
  {
    int z, y, x; g.coords(j, z, y, x);
    for (int dz = W.zlo; dz <= W.zhi; ++dz) for (int dy = W.ylo; dy <= W.yhi; ++dy) for (int dx = W.xlo; dx <= W.xhi; ++dx)
      {
        if (dz == 0 && dy == 0 && dx == 0) continue; // psi(x,x)==0 identically: the centre weight cannot contribute
        if (!g.inside(z + dz, y + dy, x + dx)) continue; // only in-image neighbour pairs
        const double ws = W.at(dz, dy, dx) + W.at(-dz, -dy, -dx); // the pair (j,k) occurs as (r=j,dr=d) and as (r=k,dr=-d)
        if (ws == 0) continue;
        const int k = g.idx(z + dz, y + dy, x + dx);
        f(k, ws * kap[j] * kap[k] * beta);
      }
  }
  // ---- pairwise priors
  double value(const std::vector<double>& x, double* noise = nullptr) const
  {
    if (pls) return pls_value(x, noise);
    double v = 0, nz = 0;
    for (int j = 0; j < g.N(); ++j)
      for_pairs(j, [&](int k, double c) { v += 0.5 * c * pot.psi(x[j], x[k]); nz += 0.5 * std::fabs(c) * pot.noise(x[j], x[k]); });
    if (noise) *noise = nz;
    return v;
  }
  void gradient(const std::vector<double>& x, std::vector<double>& gr, std::vector<double>& ab) const
  {
    gr.assign(g.N(), 0); ab.assign(g.N(), 0);
    if (pls) { pls_gradient(x, gr, ab); return; }
    for (int j = 0; j < g.N(); ++j)
      for_pairs(j, [&](int k, double c) { const double t = c * pot.d1(x[j], x[k]); gr[j] += t; ab[j] += std::fabs(t); });
  }
  void hrow(const std::vector<double>& x, int j, std::vector<double>& row, std::vector<double>& ab) const
  {
    row.assign(g.N(), 0); ab.assign(g.N(), 0);
    for_pairs(j, [&](int k, double c) {
      const double a = c * pot.d20(x[j], x[k]), b = c * pot.d11(x[j], x[k]);
      row[j] += a; ab[j] += std::fabs(a); row[k] += b; ab[k] += std::fabs(b);
    });
  }
  void hv(const std::vector<double>& x, const std::vector<double>& v, std::vector<double>& out, std::vector<double>& ab) const
  {
    out.assign(g.N(), 0); ab.assign(g.N(), 0);
    for (int j = 0; j < g.N(); ++j)
      for_pairs(j, [&](int k, double c) {
        const double a = c * pot.d20(x[j], x[k]) * v[j], b = c * pot.d11(x[j], x[k]) * v[k];
        out[j] += a + b; ab[j] += std::fabs(a) + std::fabs(b);
      });
  }
  // noise of the value terms touching voxel j (for the finite-difference tolerance), and kink allowance
  void fd_aux(const std::vector<double>& x, const std::vector<double>& dir, double& noise, double& kink) const
  {
    noise = 0; kink = 0;
    if (pls)
      {
        // only the terms r whose forward differences involve a moved voxel change between the evaluations
        for (int r = 0; r < g.N(); ++r)
          {
            int z, y, xx; g.coords(r, z, y, xx);
            bool touched = dir[r] != 0;
            if (!only2d && z + 1 < g.nz && dir[g.idx(z + 1, y, xx)] != 0) touched = true;
            if (y + 1 < g.ny && dir[g.idx(z, y + 1, xx)] != 0) touched = true;
            if (xx + 1 < g.nx && dir[g.idx(z, y, xx + 1)] != 0) touched = true;
            if (!touched) continue;
            double gx[3]; pls_fwd(x, r, gx);
            const double q2 = alpha * alpha + 2 * (gx[0] * gx[0] + gx[1] * gx[1] + gx[2] * gx[2]);
            noise += beta * kap[r] * q2 / std::sqrt(alpha * alpha); // bound on |d sqrt| for float rounding of the radicand (P>=alpha)
          }
        return;
      }
    for (int j = 0; j < g.N(); ++j)
      for_pairs(j, [&](int k, double c) {
        if (dir[j] == 0 && dir[k] == 0) return;
        // float rounding of the value terms at the base point and at the outermost stencil points
        const double yj = x[j] + 2 * (1.0 / 128) * dir[j], yk = x[k] + 2 * (1.0 / 128) * dir[k], zj = 2 * x[j] - yj, zk = 2 * x[k] - yk;
        noise += 0.5 * std::fabs(c) * (pot.noise(x[j], x[k]) + pot.noise(yj, yk) + pot.noise(zj, zk));
        if (x[j] == x[k] && dir[j] != dir[k]) kink += 0.5 * std::fabs(c) * pot.kink3(x[j], x[k]) * std::fabs(dir[j] - dir[k]) * std::fabs(dir[j] - dir[k]);
      });
  }
  // ---- PLS: f = beta * sum_r kappa_r sqrt(alpha^2 + |grad x|^2 - <grad x, xi>^2), forward differences, 0 where the neighbour is outside
  void pls_fwd(const std::vector<double>& x, int r, double* gx) const
  {
    int z, y, xx; g.coords(r, z, y, xx);
    gx[0] = (!only2d && z + 1 < g.nz) ? x[g.idx(z + 1, y, xx)] - x[r] : 0;
    gx[1] = (y + 1 < g.ny) ? x[g.idx(z, y + 1, xx)] - x[r] : 0;
    gx[2] = (xx + 1 < g.nx) ? x[g.idx(z, y, xx + 1)] - x[r] : 0;
  }
  double pls_value(const std::vector<double>& x, double* noise) const
  {
    double v = 0;
    for (int r = 0; r < g.N(); ++r)
      {
        double gx[3], ga[3]; pls_fwd(x, r, gx); pls_fwd(anat, r, ga);
        const double nrm = std::sqrt(ga[0] * ga[0] + ga[1] * ga[1] + ga[2] * ga[2] + eta * eta);
        const double ip = (gx[0] * ga[0] + gx[1] * ga[1] + gx[2] * ga[2]) / nrm;
        v += beta * kap[r] * std::sqrt(alpha * alpha + gx[0] * gx[0] + gx[1] * gx[1] + gx[2] * gx[2] - ip * ip);
      }
    if (noise) *noise = std::fabs(v) * 4;
    return v;
  }
  void pls_gradient(const std::vector<double>& x, std::vector<double>& gr, std::vector<double>& ab) const
  {
    for (int r = 0; r < g.N(); ++r)
      {
        int z, y, xx; g.coords(r, z, y, xx);
        double gx[3], ga[3]; pls_fwd(x, r, gx); pls_fwd(anat, r, ga);
        const double nrm = std::sqrt(ga[0] * ga[0] + ga[1] * ga[1] + ga[2] * ga[2] + eta * eta);
        const double ip = (gx[0] * ga[0] + gx[1] * ga[1] + gx[2] * ga[2]) / nrm;
        const double P = std::sqrt(alpha * alpha + gx[0] * gx[0] + gx[1] * gx[1] + gx[2] * gx[2] - ip * ip);
        const int nb[3] = { (!only2d && z + 1 < g.nz) ? g.idx(z + 1, y, xx) : -1, (y + 1 < g.ny) ? g.idx(z, y + 1, xx) : -1, (xx + 1 < g.nx) ? g.idx(z, y, xx + 1) : -1 };
        for (int d = 0; d < 3; ++d)
          {
            if (nb[d] < 0) continue;
            const double q = beta * kap[r] * (gx[d] - ip * ga[d] / nrm) / P;
            const double aq = beta * kap[r] * (std::fabs(gx[d]) + std::fabs(ip * ga[d] / nrm)) / P;
            gr[nb[d]] += q; gr[r] -= q; ab[nb[d]] += aq; ab[r] += aq;
          }
      }
  }
};

// ------------------------------------------------------------------------------------------------ the real prior
struct Real
{
  shared_ptr<Prior> p;
  shared_ptr<Vox> templ, kappa, anat;
  bool rejected = false; std::string reject_msg;
};

static Array<3, float> weights_in_force(const Cfg& c, Prior& p)
{
  if (c.prior == "Q") return dynamic_cast<QuadraticPrior<float>&>(p).get_weights();
  if (c.prior == "R") return dynamic_cast<RelativeDifferencePrior<float>&>(p).get_weights();
  if (c.prior == "L") return dynamic_cast<LogcoshPrior<float>&>(p).get_weights();
  return Array<3, float>();
}

// builds a fresh prior for configuration c with penalisation factor beta; fills the reference with the parameters in force
static Real make_prior(const Cfg& c, double beta, Ref& ref, const std::string& wmode_override = "")
{
  Real r;
  const std::string wm = wmode_override.empty() ? c.w : wmode_override;
  r.templ = make_vox(c, 1.F);
  const int N = c.N();
  ref.beta = beta;
  ref.kap.assign(N, 1.0);
  if (c.kappa)
    {
      r.kappa = make_vox(c);
      for (int j = 0; j < N; ++j) ref.kap[j] = kappa_label(j);
      set_flat(*r.kappa, ref.kap);
    }
  std::string what;
  const bool threw = small::throws([&] {
    if (c.prior == "Q")
      {
        auto* q = new QuadraticPrior<float>(wm == "2d", (float)beta);
        r.p.reset(q);
        if (wm == "u3") q->set_weights(user_weights(1, false));
        if (wm == "u5") q->set_weights(user_weights(2, false));
        if (wm == "asym") q->set_weights(user_weights(1, true));
        if (c.kappa) q->set_kappa_sptr(r.kappa);
        ref.pot.kind = 'Q';
      }
    else if (c.prior == "R")
      {
        auto* q = new RelativeDifferencePrior<float>(wm == "2d", (float)beta, (float)c.p2, (float)c.p1);
        r.p.reset(q);
        q->only_2D = (wm == "2d"); // the 4-argument constructor resets only_2D through set_defaults(); see observation
        if (wm == "u3") q->set_weights(user_weights(1, false));
        if (wm == "u5") q->set_weights(user_weights(2, false));
        if (wm == "asym") q->set_weights(user_weights(1, true));
        if (c.kappa) q->set_kappa_sptr(r.kappa);
        ref.pot.kind = 'R'; ref.pot.eps = (double)(float)c.p1; ref.pot.gamma = (double)(float)c.p2;
      }
    else if (c.prior == "L")
      {
        auto* q = new LogcoshPrior<float>(wm == "2d", (float)beta, (float)c.p1);
        r.p.reset(q);
        q->only_2D = (wm == "2d");
        if (wm == "u3") q->set_weights(user_weights(1, false));
        if (wm == "u5") q->set_weights(user_weights(2, false));
        if (wm == "asym") q->set_weights(user_weights(1, true));
        if (c.kappa) q->set_kappa_sptr(r.kappa);
        ref.pot.kind = 'L'; ref.pot.s = (double)(float)c.p1;
      }
    else
      {
        auto* q = new PLSPrior<float>(wm == "2d", (float)beta);
        r.p.reset(q);
        q->only_2D = (wm == "2d");
        q->set_alpha(c.p1); q->set_eta(c.p2);
        r.anat = make_vox(c, 1.F);
        ref.anat.assign(N, 1.0);
        if (c.anat) { for (int j = 0; j < N; ++j) ref.anat[j] = anat_label(j); set_flat(*r.anat, ref.anat); }
        q->set_anatomical_image_sptr(r.anat);
        if (c.kappa) q->set_kappa_sptr(r.kappa);
        ref.pls = true; ref.only2d = (wm == "2d"); ref.alpha = c.p1; ref.eta = c.p2;
      }
    if (wm == "stale")
      {
        // history: first use on a 2x2x2 image with 1x1x1 mm voxels (this fixes the lazily computed default weights), then set_up on the target
        Cfg c0 = c; c0.nz = c0.ny = c0.nx = 2; c0.sp = 0;
        shared_ptr<Vox> first = make_vox(c0, 1.F);
        shared_ptr<Vox> k0;
        if (c.kappa) { k0 = make_vox(c0, 1.F); if (c.prior == "Q") dynamic_cast<QuadraticPrior<float>&>(*r.p).set_kappa_sptr(k0); else if (c.prior == "R") dynamic_cast<RelativeDifferencePrior<float>&>(*r.p).set_kappa_sptr(k0); else dynamic_cast<LogcoshPrior<float>&>(*r.p).set_kappa_sptr(k0); }
        r.p->set_penalisation_factor(1.F);
        r.p->set_up(first);
        (void)r.p->compute_value(*first);
        if (c.kappa) { if (c.prior == "Q") dynamic_cast<QuadraticPrior<float>&>(*r.p).set_kappa_sptr(r.kappa); else if (c.prior == "R") dynamic_cast<RelativeDifferencePrior<float>&>(*r.p).set_kappa_sptr(r.kappa); else dynamic_cast<LogcoshPrior<float>&>(*r.p).set_kappa_sptr(r.kappa); }
        r.p->set_penalisation_factor((float)beta);
      }
    if (r.p->set_up(r.templ) != Succeeded::yes) throw std::runtime_error("set_up returned Succeeded::no");
    if (c.prior != "P")
      {
        // default weights are computed lazily on first use (and not at all while the penalisation factor is 0): trigger with factor 1
        r.p->set_penalisation_factor(1.F);
        (void)r.p->compute_value(*r.templ);
        r.p->set_penalisation_factor((float)beta);
        ref.W = Weights::from(weights_in_force(c, *r.p));
      }
  }, &what);
  if (threw) { r.rejected = true; r.reject_msg = what; }
  return r;
}

// ------------------------------------------------------------------------------------------------ images
struct Img
{
  double bg = 1; std::vector<std::pair<int, double>> dev; // (voxel, value)
  std::string str() const { std::string s = "bg=" + vmc::str(bg) + ";dev="; for (size_t i = 0; i < dev.size(); ++i) s += (i ? "," : "") + vmc::str(dev[i].first) + ":" + vmc::str(dev[i].second); return s; }
  static Img parse(const std::string& s)
  {
    auto m = vmc::kv(s); Img im; im.bg = atof(m["bg"].c_str());
    if (!m["dev"].empty()) for (auto& p : vmc::split(m["dev"], ',')) { auto e = p.find(':'); im.dev.push_back({ atoi(p.substr(0, e).c_str()), atof(p.substr(e + 1).c_str()) }); }
    return im;
  }
  std::vector<double> flat(int N) const { std::vector<double> v(N, bg); for (auto& d : dev) v[d.first] = d.second; return v; }
};

// symmetric eigenvalues (cyclic Jacobi); returns the smallest
static double min_eig(std::vector<double> A, int n)
{
  for (int sweep = 0; sweep < 60; ++sweep)
    {
      double off = 0; for (int i = 0; i < n; ++i) for (int j = i + 1; j < n; ++j) off += A[i * n + j] * A[i * n + j];
      double dg = 0; for (int i = 0; i < n; ++i) dg += A[i * n + i] * A[i * n + i];
      if (off <= 1e-26 * (dg + 1e-300)) break;
      for (int p = 0; p < n; ++p)
        for (int q = p + 1; q < n; ++q)
          {
            const double apq = A[p * n + q];
            if (apq == 0) continue;
            const double th = (A[q * n + q] - A[p * n + p]) / (2 * apq);
            const double t = (th >= 0 ? 1 : -1) / (std::fabs(th) + std::sqrt(th * th + 1));
            const double c = 1 / std::sqrt(t * t + 1), s = t * c;
            for (int k = 0; k < n; ++k) { const double akp = A[k * n + p], akq = A[k * n + q]; A[k * n + p] = c * akp - s * akq; A[k * n + q] = s * akp + c * akq; }
            for (int k = 0; k < n; ++k) { const double apk = A[p * n + k], aqk = A[q * n + k]; A[p * n + k] = c * apk - s * aqk; A[q * n + k] = s * apk + c * aqk; }
          }
    }
  double m = A[0]; for (int i = 1; i < n; ++i) m = std::min(m, A[i * n + i]);
  return m;
}

// what is done for one image
struct Plan
{
  bool fd_all = false;      // finite-difference check of the gradient for every e_j (else: deviating voxels + labelled direction)
  bool rows_all = true;     // Hessian row for every voxel (else: the listed voxels)
  bool hej_all = false;     // H e_j through accumulate_Hessian_times_input for every j
  bool eig = false;         // dense eigenvalue check
  bool beta_lin = false;    // linearity in the penalisation factor
  bool fd_hess = false;     // H v vs central difference of STIR's own gradient
  bool labelled_dir = true; // use the labelled full-image direction (finite differences and H v)
  bool pair_dirs = false;   // directions e_i+e_j for all in-image neighbours j of the voxels of interest (else: only e_j+e_k of the deviating voxels)
  std::vector<int> rows;    // Hessian rows when not "all"
  std::vector<int> hej;     // voxels j for which H e_j is computed when not "all"
};

static const double H_FD = 1.0 / 128;

struct Runner
{
  vmc::Ctx& ctx; const Cfg c;
  Runner(vmc::Ctx& x, const Cfg& cc) : ctx(x), c(cc) {}

  bool viol(const std::string& clause, const Img& im, const std::string& msg)
  {
    ctx.violation(c.key(clause), c.str() + ";" + im.str(), msg + "   [" + c.str() + " image " + im.str() + "]");
    return false;
  }
  static std::string vox(const Grid& g, int j) { int z, y, x; g.coords(j, z, y, x); return "(" + vmc::str(z + g.z0) + "," + vmc::str(y + g.y0) + "," + vmc::str(x + g.x0) + ")"; }

  // returns false if a violation was recorded
  bool run_image(const Img& im, const Plan& plan)
  {
    ctx.current(c.key("crash"), c.str() + ";" + im.str());
    ctx.count("evaluations");
    Ref ref(c);
    Real R = make_prior(c, 1.0, ref);
    if (R.rejected) { ctx.count("rejected_configs"); ctx.observe("configuration rejected by STIR: " + c.str() + " : " + R.reject_msg.substr(0, 120)); return true; }
    const Grid& g = ref.g; const int N = g.N();
    if (c.prior != "P" && !ref.W.symmetric_zero_centre() && c.w != "asym") return viol("weights_not_symmetric", im, "weights in force are not symmetric / have a non-zero centre: " + ref.W.str());
    const std::vector<double> x = im.flat(N);
    shared_ptr<Vox> X = make_vox(c); set_flat(*X, x);
    bool ok = true;
    const bool pls = c.prior == "P";
    const double wsum = pls ? 6.0 : ref.W.sum_abs();
    double kmax = 1; for (double k : ref.kap) kmax = std::max(kmax, k);
    const double tiny = 1e-9 * wsum * kmax * kmax;

    // ---------------- value
    double vnoise = 0;
    const double vref = ref.value(x, &vnoise);
    const double v = R.p->compute_value(*X);
    if (!(std::fabs(v - vref) <= 64 * EPSF * vnoise + 1e-12)) ok = viol("value_vs_reference", im, "compute_value=" + vmc::str(v) + " reference (documented formula over in-image pairs)=" + vmc::str(vref));
    // ---------------- gradient
    std::vector<double> gref, gabs;
    ref.gradient(x, gref, gabs);
    shared_ptr<Vox> G = make_vox(c, 7.F); // pre-filled: compute_gradient must overwrite
    R.p->compute_gradient(*G, *X);
    const std::vector<double> gi = get_flat(*G);
    // PLS: voxels on a face of the image and voxels strictly inside are reported under different keys (the first failing voxel of
    // each kind), so that a border defect cannot mask an interior one
    auto on_face = [&](int j) { int z, y, xx; g.coords(j, z, y, xx); return z == 0 || z == g.nz - 1 || y == 0 || y == g.ny - 1 || xx == 0 || xx == g.nx - 1; };
    {
      bool rep_border = false, rep_interior = false;
      for (int j = 0; j < N && (pls ? !(rep_border && rep_interior) : ok); ++j)
        if (!(std::fabs(gi[j] - gref[j]) <= 64 * EPSF * gabs[j] + tiny))
          {
            const bool face = on_face(j);
            if (pls && (face ? rep_border : rep_interior)) continue;
            (face ? rep_border : rep_interior) = true;
            ok = viol(std::string("gradient_vs_reference") + (pls ? (face ? ";where=border" : ";where=interior") : ""), im,
                      "gradient at " + vox(g, j) + " = " + vmc::str(gi[j]) + " reference derivative of the documented value = " + vmc::str(gref[j]));
          }
    }
    if (im.dev.empty())
      {
        ctx.count("uniform_images");
        for (int j = 0; j < N; ++j) if (!(std::fabs(gi[j]) <= 1e-6 * wsum * kmax * kmax)) { ok = viol("gradient_uniform_nonzero", im, "gradient of a uniform image at " + vox(g, j) + " = " + vmc::str(gi[j])); break; }
      }
    // ---------------- gradient vs finite differences of STIR's own value
    {
      std::vector<std::vector<double>> dirs; std::vector<std::string> dname; std::vector<int> dkind; // 0 interior unit vector, 1 border unit vector, 2 labelled
      auto unit = [&](int j) { std::vector<double> d(N, 0.0); d[j] = 1; return d; };
      if (plan.fd_all) for (int j = 0; j < N; ++j) { dirs.push_back(unit(j)); dname.push_back("e" + vox(g, j)); dkind.push_back(on_face(j) ? 1 : 0); }
      else for (auto& d : im.dev) { dirs.push_back(unit(d.first)); dname.push_back("e" + vox(g, d.first)); dkind.push_back(on_face(d.first) ? 1 : 0); }
      if (plan.labelled_dir || dirs.empty()) { std::vector<double> L(N); for (int j = 0; j < N; ++j) L[j] = (pls && on_face(j)) ? 0.0 : dir_label(j); // PLS: interior voxels only (border voxels have their own key)
          bool any = false; for (double v : L) any |= (v != 0);
          if (any) { dirs.push_back(L); dname.push_back(pls ? "labelled(interior voxels)" : "labelled"); dkind.push_back(2); } }
      bool rep_kind[3] = { false, false, false };
      shared_ptr<Vox> Y = make_vox(c);
      bool ok_fd = true; // evaluated even if the comparison with the reference failed: it is the reference-free arbiter
      for (size_t di = 0; di < dirs.size() && (pls || ok_fd); ++di)
        {
          if (pls && rep_kind[dkind[di]]) continue;
          const auto& d = dirs[di];
          double vals[4]; const double steps[4] = { 2, 1, -1, -2 };
          std::vector<double> y(N);
          for (int s = 0; s < 4; ++s) { for (int j = 0; j < N; ++j) y[j] = x[j] + steps[s] * H_FD * d[j]; set_flat(*Y, y); vals[s] = R.p->compute_value(*Y); }
          const double fd = (-vals[0] + 8 * vals[1] - 8 * vals[2] + vals[3]) / (12 * H_FD);
          double dd = 0, dab = 0; for (int j = 0; j < N; ++j) { dd += gi[j] * d[j]; dab += gabs[j] * std::fabs(d[j]); }
          double nz, kink; ref.fd_aux(x, d, nz, kink);
          const double tol = 1e-3 * dab + 64 * EPSF * nz * 1.5 / H_FD + kink * H_FD * H_FD + tiny;
          ctx.count("fd_gradient_checks");
          if (!(std::fabs(fd - dd) <= tol) && (rep_kind[dkind[di]] = true))
            ok = ok_fd = viol(std::string("gradient_vs_fd_of_value") + (pls ? (dkind[di] == 1 ? ";where=border" : dkind[di] == 0 ? ";where=interior" : ";where=labelled_direction") : ""), im, "direction " + dname[di] + ": <compute_gradient,d>=" + vmc::str(dd) + " but 4th-order central difference of compute_value=" + vmc::str(fd) + " (tolerance " + vmc::str(tol) + ")");
        }
    }
    // ---------------- linear in the penalisation factor, zero factor
    if (plan.beta_lin && ok)
      {
        Ref ref2(c); Real R2 = make_prior(c, 2.5, ref2);
        const double v2 = R2.p->compute_value(*X);
        if (!(std::fabs(v2 - 2.5 * v) <= 16 * EPSF * 2.5 * vnoise + 1e-12)) ok = viol("linear_in_penalisation_factor", im, "value(beta=2.5)=" + vmc::str(v2) + " but 2.5*value(beta=1)=" + vmc::str(2.5 * v));
        shared_ptr<Vox> G2 = make_vox(c, 7.F); R2.p->compute_gradient(*G2, *X);
        const auto g2 = get_flat(*G2);
        for (int j = 0; j < N && ok; ++j) if (!(std::fabs(g2[j] - 2.5 * gi[j]) <= 16 * EPSF * 2.5 * gabs[j] + tiny)) ok = viol("linear_in_penalisation_factor", im, "gradient(beta=2.5) at " + vox(g, j) + "=" + vmc::str(g2[j]) + " but 2.5*gradient(beta=1)=" + vmc::str(2.5 * gi[j]));
        Ref ref0(c); Real R0 = make_prior(c, 0.0, ref0);
        const double v0 = R0.p->compute_value(*X);
        shared_ptr<Vox> G0 = make_vox(c, 7.F); R0.p->compute_gradient(*G0, *X);
        double m0 = 0; for (double t : get_flat(*G0)) m0 = std::max(m0, std::fabs(t));
        if (v0 != 0 || m0 != 0) ok = viol("zero_penalisation_factor", im, "penalisation factor 0: value=" + vmc::str(v0) + " max|gradient|=" + vmc::str(m0));
        if (!pls && ok)
          {
            shared_ptr<Vox> Hr = make_vox(c, 7.F); const int j = im.dev.empty() ? 0 : im.dev[0].first; int z, y, xx; g.coords(j, z, y, xx);
            R2.p->compute_Hessian(*Hr, make_coordinate(z + g.z0, y + g.y0, xx + g.x0), *X);
            shared_ptr<Vox> H1 = make_vox(c, 7.F); R.p->compute_Hessian(*H1, make_coordinate(z + g.z0, y + g.y0, xx + g.x0), *X);
            const auto a = get_flat(*Hr), b = get_flat(*H1);
            for (int k = 0; k < N && ok; ++k) if (!(std::fabs(a[k] - 2.5 * b[k]) <= 16 * EPSF * 2.5 * std::fabs(b[k]) + tiny)) ok = viol("linear_in_penalisation_factor", im, "Hessian row(beta=2.5) differs from 2.5*row(beta=1) at " + vox(g, k));
            R0.p->compute_Hessian(*Hr, make_coordinate(z + g.z0, y + g.y0, xx + g.x0), *X);
            for (double t : get_flat(*Hr)) if (t != 0) { ok = viol("zero_penalisation_factor", im, "penalisation factor 0: Hessian row not zero"); break; }
          }
        ctx.count("beta_linearity_checks");
      }
    if (!ok) return false;
    // ---------------- Hessian
    if (pls)
      {
        // PLSPrior declares is_convex() but implements neither compute_Hessian nor accumulate_Hessian_times_input: error() => recorded, not a failure
        static bool once = false;
        if (!once)
          {
            once = true;
            shared_ptr<Vox> Hr = make_vox(c), O = make_vox(c);
            std::string w1, w2;
            const bool t1 = small::throws([&] { R.p->compute_Hessian(*Hr, make_coordinate(g.z0, g.y0, g.x0), *X); }, &w1);
            const bool t2 = small::throws([&] { R.p->accumulate_Hessian_times_input(*O, *X, *X); }, &w2);
            if (t1 && t2) { ctx.count("rejected_configs"); ctx.observe(std::string("PLSPrior::is_convex()=") + (R.p->is_convex() ? "true" : "false") + " but compute_Hessian / accumulate_Hessian_times_input call error() (not implemented): Hessian clauses not evaluated for PLS"); }
            else ctx.observe("PLSPrior Hessian functions did not throw - unexpected, not checked");
          }
        return ok;
      }
    std::vector<int> rows;
    if (plan.rows_all) for (int j = 0; j < N; ++j) rows.push_back(j); else rows = plan.rows;
    std::vector<double> Hd; const bool dense = plan.rows_all && N <= 64;
    if (dense) Hd.assign((size_t)N * N, 0.0);
    std::vector<double> rref, rabs, habs_row(N, 0.0);
    shared_ptr<Vox> Hr = make_vox(c, 7.F), O = make_vox(c), V = make_vox(c);
    for (int j : rows)
      {
        if (!ok) break;
        int z, y, xx; g.coords(j, z, y, xx);
        Hr->fill(7.F);
        R.p->compute_Hessian(*Hr, make_coordinate(z + g.z0, y + g.y0, xx + g.x0), *X);
        const auto hi = get_flat(*Hr);
        ref.hrow(x, j, rref, rabs);
        ctx.count("hessian_rows");
        for (int k = 0; k < N && ok; ++k)
          if (!(std::fabs(hi[k] - rref[k]) <= 128 * EPSF * rabs[k] + tiny))
            ok = viol("hessian_row_vs_reference", im, "compute_Hessian row " + vox(g, j) + " at " + vox(g, k) + " = " + vmc::str(hi[k]) + " reference second derivative of the documented value = " + vmc::str(rref[k]));
        if (dense) for (int k = 0; k < N; ++k) { Hd[(size_t)j * N + k] = hi[k]; habs_row[j] += rabs[k]; }
        // row j == H e_j
        if (ok && (plan.hej_all || std::find(plan.hej.begin(), plan.hej.end(), j) != plan.hej.end()))
          {
            V->fill(0.F); (*V)[z + g.z0][y + g.y0][xx + g.x0] = 1.F;
            O->fill(3.F); // accumulate: the pre-existing contents must be kept
            R.p->accumulate_Hessian_times_input(*O, *X, *V);
            const auto oi = get_flat(*O);
            ctx.count("hessian_times_unit_vector");
            for (int k = 0; k < N && ok; ++k)
              if (!(std::fabs((oi[k] - 3.0) - hi[k]) <= 128 * EPSF * rabs[k] + 8 * EPSF * 3.0 + tiny))
                ok = viol("hessian_row_vs_H_times_unit", im, "compute_Hessian row " + vox(g, j) + " at " + vox(g, k) + " = " + vmc::str(hi[k]) + " but (accumulate_Hessian_times_input with the unit image at " + vox(g, j) + ")" + vox(g, k) + " = " + vmc::str(oi[k] - 3.0));
          }
      }
    if (!ok) return false;
    if (dense)
      {
        for (int j = 0; j < N && ok; ++j) for (int k = j + 1; k < N && ok; ++k)
          if (!(std::fabs(Hd[(size_t)j * N + k] - Hd[(size_t)k * N + j]) <= 128 * EPSF * (std::fabs(Hd[(size_t)j * N + k]) + std::fabs(Hd[(size_t)k * N + j])) + tiny))
            ok = viol("hessian_symmetry", im, "H[" + vox(g, j) + "][" + vox(g, k) + "]=" + vmc::str(Hd[(size_t)j * N + k]) + " but H[" + vox(g, k) + "][" + vox(g, j) + "]=" + vmc::str(Hd[(size_t)k * N + j]));
        ctx.count("hessians_assembled");
        if (ok && plan.eig && R.p->is_convex())
          {
            std::vector<double> S((size_t)N * N);
            double scale = 0;
            for (int j = 0; j < N; ++j) { scale = std::max(scale, habs_row[j]); for (int k = 0; k < N; ++k) S[(size_t)j * N + k] = 0.5 * (Hd[(size_t)j * N + k] + Hd[(size_t)k * N + j]); }
            const double lam = min_eig(S, N);
            ctx.count("eigenvalue_checks");
            if (!(lam >= -256 * EPSF * scale - tiny)) ok = viol("hessian_not_psd", im, "is_convex() prior: smallest eigenvalue of the assembled Hessian = " + vmc::str(lam) + " (scale " + vmc::str(scale) + ")");
          }
      }
    if (!ok) return false;
    // ---------------- H v for directions: labelled, e_i+e_j (neighbours of the voxels of interest)
    {
      std::vector<std::vector<double>> dirs; std::vector<std::string> dname;
      if (plan.labelled_dir) { std::vector<double> L(N); for (int j = 0; j < N; ++j) L[j] = dir_label(j); dirs.push_back(L); dname.push_back("labelled"); }
      std::vector<int> centres; for (auto& d : im.dev) centres.push_back(d.first);
      if (centres.empty()) { centres.push_back(0); centres.push_back(N - 1); centres.push_back(N / 2); }
      if (!plan.pair_dirs)
        {
          if (im.dev.size() >= 2) { std::vector<double> d(N, 0.0); std::string nm; for (auto& dv : im.dev) { d[dv.first] = 1; nm += "+e" + vox(g, dv.first); } dirs.push_back(d); dname.push_back(nm.substr(1)); }
          centres.clear();
        }
      for (int i : centres)
        {
          int z, y, xx; g.coords(i, z, y, xx);
          for (int dz = -1; dz <= 1; ++dz) for (int dy = -1; dy <= 1; ++dy) for (int dx = -1; dx <= 1; ++dx)
            {
              if ((dz == 0 && dy == 0 && dx == 0) || !g.inside(z + dz, y + dy, xx + dx)) continue;
              std::vector<double> d(N, 0.0); d[i] = 1; d[g.idx(z + dz, y + dy, xx + dx)] = 1;
              dirs.push_back(d); dname.push_back("e" + vox(g, i) + "+e" + vox(g, g.idx(z + dz, y + dy, xx + dx)));
            }
        }
      std::vector<double> href, hab;
      for (size_t di = 0; di < dirs.size() && ok; ++di)
        {
          const auto& d = dirs[di];
          set_flat(*V, d); O->fill(0.F);
          R.p->accumulate_Hessian_times_input(*O, *X, *V);
          const auto oi = get_flat(*O);
          ref.hv(x, d, href, hab);
          ctx.count("hessian_times_vector");
          double q = 0, qab = 0;
          for (int k = 0; k < N; ++k) { q += d[k] * oi[k]; qab += std::fabs(d[k]) * hab[k]; }
          for (int k = 0; k < N && ok; ++k)
            if (!(std::fabs(oi[k] - href[k]) <= 128 * EPSF * hab[k] + tiny))
              ok = viol("hessian_times_vector_vs_reference", im, "direction " + dname[di] + ": (H v) at " + vox(g, k) + " = " + vmc::str(oi[k]) + " reference = " + vmc::str(href[k]));
          if (ok && R.p->is_convex() && !(q >= -256 * EPSF * qab - tiny)) ok = viol("hessian_not_psd", im, "is_convex() prior: v^T H v = " + vmc::str(q) + " < 0 for direction " + dname[di]);
          // H v == directional derivative of STIR's own gradient
          if (ok && plan.fd_hess && (di == 0 || di <= 3))
            {
              shared_ptr<Vox> Y = make_vox(c), Gs = make_vox(c);
              std::vector<std::vector<double>> gs(4); const double steps[4] = { 2, 1, -1, -2 };
              std::vector<double> y(N);
              for (int s = 0; s < 4; ++s) { for (int j = 0; j < N; ++j) y[j] = x[j] + steps[s] * H_FD * d[j]; set_flat(*Y, y); R.p->compute_gradient(*Gs, *Y); gs[s] = get_flat(*Gs); }
              ctx.count("fd_hessian_checks");
              for (int k = 0; k < N && ok; ++k)
                {
                  const double fd = (-gs[0][k] + 8 * gs[1][k] - 8 * gs[2][k] + gs[3][k]) / (12 * H_FD);
                  // kink allowance (RDP, gamma>0, tie x_k==x_l with different steps): error <= (2/3) h |jump psi'''| / ... generous factor 2
                  double kink = 0;
                  ref.for_pairs(k, [&](int l, double cc) { if (x[k] == x[l] && d[k] != d[l]) kink += std::fabs(cc) * ref.pot.kink3(x[k], x[l]) * H_FD * std::fabs(d[k] - d[l]) * std::fabs(d[k] - d[l]); });
                  const double tol = 2e-3 * hab[k] + 64 * EPSF * (gabs[k] + 4 * H_FD * hab[k]) * 1.5 / H_FD + kink + tiny + 1e-5 * wsum * kmax * kmax;
                  if (!(std::fabs(fd - oi[k]) <= tol))
                    ok = viol("hessian_times_vector_vs_fd_of_gradient", im, "direction " + dname[di] + ": (H v) at " + vox(g, k) + " = " + vmc::str(oi[k]) + " but central difference of compute_gradient = " + vmc::str(fd) + " (tolerance " + vmc::str(tol) + ")");
                }
            }
        }
    }
    return ok;
  }
};

// ------------------------------------------------------------------------------------------------ enumeration
static std::vector<double> dev_values(double bg) { std::vector<double> v; for (double t : { 0.5, 1.0, 2.0, 4.0 }) if (t != bg) v.push_back(t); return v; }

static void run_config(vmc::Ctx& ctx, const Cfg& c)
{
  const bool th = ctx.thorough();
  const int N = c.N();
  const bool big = N > 64;
  Runner R(ctx, c);
  Grid g(c);
  ctx.count("configurations");
  ctx.maxi("max_voxels", N);
  long long images = 0;
  auto describe = [&](const Img& im) { ctx.nontrivial(c.str() + ";" + im.str()); ++images; };
  auto nb27 = [&](int j) { std::vector<int> v; int z, y, x; g.coords(j, z, y, x); for (int dz = -1; dz <= 1; ++dz) for (int dy = -1; dy <= 1; ++dy) for (int dx = -1; dx <= 1; ++dx) if (g.inside(z + dz, y + dy, x + dx)) v.push_back(g.idx(z + dz, y + dy, x + dx)); return v; };
  // representative voxels on the big grid
  std::vector<int> rep5, rep3;
  if (big)
    {
      auto pick5 = [](int n) { std::set<int> s = { 0, 1, n / 2, n - 2, n - 1 }; return std::vector<int>(s.begin(), s.end()); };
      auto pick3 = [](int n) { std::set<int> s = { 0, n / 2, n - 1 }; return std::vector<int>(s.begin(), s.end()); };
      for (int z : pick5(g.nz)) for (int y : pick5(g.ny)) for (int x : pick5(g.nx)) rep5.push_back(g.idx(z, y, x));
      for (int z : pick3(g.nz)) for (int y : pick3(g.ny)) for (int x : pick3(g.nx)) rep3.push_back(g.idx(z, y, x));
    }
  for (double bg : { 1.0, 0.5 })
    {
      const auto vals = dev_values(bg);
      // 0 deviations
      {
        Img im; im.bg = bg; Plan p; p.fd_all = !big; p.rows_all = !big; p.hej_all = !big; p.eig = true; p.beta_lin = true; p.fd_hess = true; p.pair_dirs = true; p.rows = rep5; p.hej = rep3;
        describe(im); if (!R.run_image(im, p)) return;
      }
      // 1 deviation, all placements, all values (big grid: all placements with one value; further values / second background reduced)
      const std::vector<int>& repx = th ? rep5 : rep3;
      for (int j = 0; j < N; ++j)
        for (size_t vi = 0; vi < vals.size(); ++vi)
          {
            const bool isrep = !big || std::find(repx.begin(), repx.end(), j) != repx.end();
            if (big && vi > 0 && (!th || bg != 1.0)) continue;
            if (big && !th && bg != 1.0 && !isrep) continue;
            Img im; im.bg = bg; im.dev = { { j, vals[vi] } };
            Plan p; p.fd_all = !big && (th || N <= 27); p.rows_all = !big; p.hej_all = !big; p.eig = !big; p.beta_lin = (vi == 0) && isrep; p.fd_hess = (vi == 0) && isrep; p.pair_dirs = isrep && (vi == 0 || !big);
            p.labelled_dir = isrep;
            if (big) { p.rows = nb27(j); p.hej = { j }; }
            describe(im); if (!R.run_image(im, p)) return;
          }
      ctx.maxi("deviations_completed", 1);
      // 2 deviations
      if (!big)
        {
          for (int j = 0; j < N; ++j) for (int k = j + 1; k < N; ++k)
            for (size_t vi = 0; vi < vals.size(); ++vi) for (size_t vk = 0; vk < vals.size(); ++vk)
              {
                Img im; im.bg = bg; im.dev = { { j, vals[vi] }, { k, vals[vk] } };
                if (!th && N > 12 && !(vi == 0 && vk == 1)) continue; // quick: one value combination for pairs on the larger small grids
                const int nsmall = th ? 27 : 12;
                Plan p; p.rows_all = true; p.hej_all = (N <= nsmall); p.eig = (N <= nsmall); p.hej = { j, k }; p.fd_hess = (vi == 0 && vk == 1 && N <= 27); p.pair_dirs = (N <= 27 && vi == 0 && vk == 1);
                describe(im); if (!R.run_image(im, p)) return;
              }
          ctx.maxi("deviations_completed", 2);
        }
      else if (th && bg == 1.0)
        {
          // big grid: first voxel among 27 representatives (corner/edge/face/interior classes), partner within Chebyshev distance 2
          for (int j : rep3)
            {
              int z, y, x; g.coords(j, z, y, x);
              for (int dz = -2; dz <= 2; ++dz) for (int dy = -2; dy <= 2; ++dy) for (int dx = -2; dx <= 2; ++dx)
                {
                  if ((dz == 0 && dy == 0 && dx == 0) || !g.inside(z + dz, y + dy, x + dx)) continue;
                  const int k = g.idx(z + dz, y + dy, x + dx);
                  Img im; im.bg = bg; im.dev = { { j, 2.0 }, { k, 4.0 } };
                  Plan p; p.rows_all = false; p.rows = { j, k }; p.hej = { j, k }; p.labelled_dir = false;
                  describe(im); if (!R.run_image(im, p)) return;
                }
            }
          ctx.count("big_grid_pair_configs");
        }
      // 3 deviations (thorough, tiny grids): exercises H x vector with three interacting voxels
      if (th && N <= 12 && N >= 3 && c.prior != "P")
        {
          for (int j = 0; j < N; ++j) for (int k = j + 1; k < N; ++k) for (int l = k + 1; l < N; ++l)
            for (size_t a = 0; a < vals.size(); ++a) for (size_t b = 0; b < vals.size(); ++b) for (size_t d = 0; d < vals.size(); ++d)
              {
                Img im; im.bg = bg; im.dev = { { j, vals[a] }, { k, vals[b] }, { l, vals[d] } };
                Plan p; p.rows_all = true; p.hej_all = true; p.eig = true;
                describe(im); if (!R.run_image(im, p)) return;
              }
          ctx.maxi("deviations_completed", 3);
        }
    }
  if (ctx.samples.size() < 6 && N >= 8) ctx.sample(c.str() + " : " + vmc::str(images) + " images");
}

// one-off observations (never violations)
static void observations(vmc::Ctx& ctx)
{
  // (1) default weights are computed lazily once and survive set_up with another voxel spacing
  for (const char* pr : { "Q", "R", "L" })
    {
      Cfg c; c.prior = pr; c.p1 = (c.prior == "R" ? 0.1 : 1.0); c.p2 = 2; c.nz = c.ny = c.nx = 3; c.sp = 1;
      Ref rf(c), rs(c);
      Real fresh = make_prior(c, 1.0, rf, "def"), stale = make_prior(c, 1.0, rs, "stale");
      if (fresh.rejected || stale.rejected) continue;
      Img im; im.bg = 1; im.dev = { { 13, 2.0 } };
      shared_ptr<Vox> X = make_vox(c); set_flat(*X, im.flat(27));
      const double vf = fresh.p->compute_value(*X), vs = stale.p->compute_value(*X);
      if (rf.W.w != rs.W.w) ctx.observe(std::string("default weights depend on history (") + c.pname() + "): a prior first used on 1x1x1 mm voxels keeps those weights after set_up on 3x1x2 mm voxels (value " + vmc::str(vs) + " vs " + vmc::str(vf) + " for a fresh prior); value/gradient/Hessian stay mutually consistent, so this is not a C09 violation");
      else ctx.observe(std::string("default weights of a re-set-up prior equal those of a fresh prior (") + c.pname() + ")");
    }
  // (2) constructors that ignore only_2D
  {
    RelativeDifferencePrior<float> r(true, 1.F, 2.F, 0.1F); LogcoshPrior<float> l(true, 1.F, 1.F); PLSPrior<float> p(true, 1.F); QuadraticPrior<float> q(true, 1.F);
    ctx.observe(std::string("only_2D after constructing with only_2D=true: Quadratic=") + (q.only_2D ? "1" : "0") + " RDP=" + (r.only_2D ? "1" : "0") + " Logcosh=" + (l.only_2D ? "1" : "0") + " PLS=" + (p.only_2D ? "1" : "0")
                + " (set_defaults() inside the constructor resets the flag where 0; the harness sets the member directly)");
  }
  // (3) asymmetric user weights / non-zero centre weight: outside the documented formulae (gradient formula assumes w_dr == w_-dr)
  for (const char* pr : { "Q", "R", "L" })
    {
      Cfg c; c.prior = pr; c.p1 = (c.prior == "R" ? 0.1 : 1.0); c.p2 = 2; c.nz = c.ny = c.nx = 3; c.w = "asym";
      Ref rf(c); Real R = make_prior(c, 1.0, rf);
      if (R.rejected) continue;
      Img im; im.bg = 1; im.dev = { { 13, 2.0 } };
      const auto x = im.flat(27);
      shared_ptr<Vox> X = make_vox(c); set_flat(*X, x);
      shared_ptr<Vox> G = make_vox(c); R.p->compute_gradient(*G, *X);
      std::vector<double> gr, ga; rf.gradient(x, gr, ga);
      const auto gi = get_flat(*G);
      double worst = 0; for (int j = 0; j < 27; ++j) worst = std::max(worst, std::fabs(gi[j] - gr[j]) / (ga[j] + 1e-30));
      shared_ptr<Vox> Hr = make_vox(c); R.p->compute_Hessian(*Hr, make_coordinate(1, 0, 0), *X);
      std::vector<double> rr, ra; rf.hrow(x, 13, rr, ra);
      const double dd = get_flat(*Hr)[13] - rr[13];
      ctx.observe(std::string("user weights that are not symmetric / have a non-zero centre (") + c.pname() + ", outside the checked alphabet): compute_gradient differs from the derivative of compute_value by up to " + vmc::str(worst) + " of the term sum; Hessian diagonal exceeds the second derivative by " + vmc::str(dd) + " (centre weight counted)");
    }
}

int main(int argc, char** argv)
{
  vmc::Ctx ctx(argc, argv, "C09");
  small::quiet();
  ctx.rule = "case = (prior+parameters, image size, voxel spacing, weights mode, kappa) x (uniform background in {1,0.5} with <=2 (<=3 tiny grids, thorough) deviating voxels "
             "from {0.5,1,2,4} at all placements); distinct = distinct (configuration,image); every case on a fresh prior object";
  ctx.assume("reference = documented potentials in double over in-image neighbour pairs, weights read back from the prior (get_weights()) after first use");
  ctx.assume("tolerances: value 64*eps_float*sum|terms| ; gradient 64*eps_float*sum|terms| ; Hessian/H.v 128*eps_float*sum|terms| ; PSD -256*eps_float*scale");
  ctx.assume("finite differences: 4th-order central, h=1/128 exactly representable; tolerance 1e-3*sum|terms| (value->gradient), 2e-3*sum|terms| (gradient->H.v) plus float-noise/h and, for RDP with gamma>0 at ties x_j==x_k, the bound on the third-derivative jump");
  ctx.assume("user weights in the checked alphabet are symmetric (w_dr==w_-dr) with zero centre, as the documented gradient formula presupposes; asymmetric weights are only observed");
  ctx.assume("images are positive (RDP is only defined for non-negative voxels); epsilon>0");
  ctx.assume("PLSPrior has no Hessian implementation (error()): only value/gradient/linearity/uniform clauses are evaluated for it");
  if (ctx.replaying())
    {
      const Cfg c = Cfg::parse(ctx.replay);
      const Img im = Img::parse(ctx.replay);
      Runner R(ctx, c);
      Plan p; p.fd_all = c.N() <= 64; p.rows_all = c.N() <= 64; p.hej_all = c.N() <= 64; p.eig = c.N() <= 64; p.beta_lin = true; p.fd_hess = true; p.pair_dirs = true;
      if (c.N() > 64)
        {
          // big grid: all rows and H e_j are affordable for a single image
          for (int j = 0; j < c.N(); ++j) { p.rows.push_back(j); p.hej.push_back(j); }
        }
      R.run_image(im, p);
      return ctx.finish();
    }
  const bool th = ctx.thorough();
  // sizes ascending by voxel count
  std::vector<std::array<int, 3>> sizes;
  const int smax = th ? 4 : 3;
  for (int z = 1; z <= smax; ++z) for (int y = 1; y <= smax; ++y) for (int x = 1; x <= smax; ++x) sizes.push_back({ z, y, x });
  std::stable_sort(sizes.begin(), sizes.end(), [](const std::array<int, 3>& a, const std::array<int, 3>& b) { return a[0] * a[1] * a[2] < b[0] * b[1] * b[2]; });
  sizes.push_back({ 8, 9, 10 });
  struct PP { std::string prior; double p1, p2; int anat; };
  std::vector<PP> priors;
  priors.push_back({ "Q", 0, 0, 0 });
  if (th) { for (double e : { 0.1, 1.0 }) for (double gm : { 0.0, 2.0 }) priors.push_back({ "R", e, gm, 0 }); for (double s : { 0.5, 2.0 }) priors.push_back({ "L", s, 0, 0 }); priors.push_back({ "P", 1, 1, 0 }); priors.push_back({ "P", 0.5, 2, 1 }); }
  else { priors.push_back({ "R", 0.1, 2.0, 0 }); priors.push_back({ "R", 1.0, 0.0, 0 }); priors.push_back({ "L", 2.0, 0, 0 }); priors.push_back({ "P", 0.5, 2, 1 }); }
  uint64_t unit = 0;
  if (ctx.mine(unit++)) observations(ctx);
  for (auto& sz : sizes)
    for (auto& pp : priors)
      for (std::string w : { "def", "u3", "u5", "2d", "stale" })
        for (int kappa = 0; kappa < 2; ++kappa)
          for (int sp = 0; sp < 2; ++sp)
            {
              if (pp.prior == "P" && (w == "u3" || w == "u5" || w == "stale")) continue; // PLS has no neighbourhood weights
              if (w == "stale" && sp == 0) continue;                                    // history differs only when the spacing changes
              Cfg c; c.prior = pp.prior; c.p1 = pp.p1; c.p2 = pp.p2; c.anat = pp.anat; c.nz = sz[0]; c.ny = sz[1]; c.nx = sz[2]; c.sp = sp; c.w = w; c.kappa = kappa;
              if (!ctx.mine(unit++)) continue;
              if (ctx.expired()) return ctx.finish();
              const double t0 = ctx.elapsed();
              run_config(ctx, c);
              if (getenv("C09_TIMING")) fprintf(stderr, "timing %s %.2f\n", c.str().c_str(), ctx.elapsed() - t0);
            }
  ctx.maxi("units", (long long)unit);
  return ctx.finish();
}
