// C14 - list-mode histogramming (LmToProjData) and list-mode likelihood gradient against the event list.
//
// Closing driver: lmref::MemListMode, an in-memory CListModeData for generated cylindrical scanners (engine/ref_listmode.h); its events
// are CListEventCylindricalScannerWithDiscreteDetectors, so the real get_bin() path is executed.
//
// Part H (histogramming; a state = event-stream history + configuration, every state is one execution of the real code on fresh objects):
//   for every template geometry of a finite list (span, view mashing, TOF mashing, truncated tangential / segment / axial ranges)
//   x EVERY stream over a finite event alphabet up to a length bound.  Two alphabets, both derived from the reference binning of ALL
//     ordered detector pairs with the template:
//       narrow = {tick +1s, prompt A, delayed A, prompt B, delayed B, prompt X}   (A: first accepted pair of the lowest segment and TOF bin,
//                 B: first accepted pair in another segment and another TOF bin, X: first rejected pair)                       - explored deep
//       wide   = {tick +1s, tick +2s} + {prompt, delayed} x {A, A2 (another detector pair of A's bin), As (A with detectors swapped and TOF
//                 index negated), B, Xring, Xtang, Xax, Xtof (rejected by ring difference / tangential / axial / TOF range)}   - explored shallow
//     plus the stream in which every ordered detector pair x unmashed TOF index occurs once (ticks interleaved, alternately prompt/delayed)
//   x EVERY selection {single frame [a,b) at whole seconds 0<=a<b<=T, partition of [0,T) into <= 3 frames (one process_data call),
//     num_events_to_store 1..n+1}
//   x store_prompts/store_delayeds in {on,off}^2 x EVERY num_segments_in_memory 1..num_segments x EVERY num_TOF_bins_in_memory 1..num_TOF:
//   the real LmToProjData (in-memory output pre-filled with a sentinel) must produce exactly the reference histogram (walk the stream
//   once, clock = last tick, +-1 per accepted event into the bin given by get_bin_for_det_pos_pair of the TEMPLATE, all other bins 0);
//   batched runs must equal it as well; the frames of a partition must add up to the real histogram of the whole interval.
//
// Part G (list-mode likelihood gradient): PoissonLogLikelihoodWithLinearModelForMeanAndListModeDataWithProjMatrixByBin on the same
//   driver; for every stream x frame x num_subsets x matrix symmetries/cache x additive term x list-mode cache size: every sub-gradient
//   (with and without the sensitivity term) must equal   sum_{b in subset} y_b P_b / (P lambda + a)_b  [- subset sensitivity]   with y = the
//   reference histogram of the prompts (explicit matrix P in double); and the data term must equal the one of the real
//   PoissonLogLikelihoodWithLinearModelForMeanAndProjData for the data histogrammed by the real LmToProjData (prompts only).
//   Part G is registered twice (checks/C14.json): in the `seq` build (STIR_OPENMP off) and, with `--only G`, in the `omp` build with one
//   thread, because LM_distributable_computation accumulates its result differently in the two builds (key field build=...).
//
// Case strings (replay): part=H;<template>;s=<records>[;mode=f<a>-<b>|..|n<N>;store=0..3;ms=<num_segments_in_memory>;mt=<num_TOF_bins_in_memory>]
//                        part=G;<template>;s=<records>;N=;sym=;add=;cache=;img=;fa=;fb=      records: t<dt> | p|d<ring1>.<det1>.<ring2>.<det2>.<tof>
#include "vmc.h"
#include "stir_small.h"
#include "ref_listmode.h"
#include "stir/listmode/LmToProjData.h"
#include "stir/TimeFrameDefinitions.h"
#include "stir/recon_buildblock/PoissonLogLikelihoodWithLinearModelForMeanAndListModeDataWithProjMatrixByBin.h"
#include "stir/recon_buildblock/PoissonLogLikelihoodWithLinearModelForMeanAndProjData.h"
#include "stir/recon_buildblock/ProjectorByBinPairUsingProjMatrixByBin.h"
#include "stir/recon_buildblock/ProjMatrixByBinUsingRayTracing.h"
#include "stir/recon_buildblock/find_basic_vs_nums_in_subsets.h"
#include "stir/DataSymmetriesForViewSegmentNumbers.h"
#include <sys/stat.h>
#include <memory>
#include <limits>

using namespace stir;
using lmref::Rec;
using lmref::Stream;
using lmref::Geo;
using lmref::Select;
using lmref::Store;

static const float SENTINEL = 77.F;

// ------------------------------------------------------------------------------------------------ templates
struct Tmpl
{
  int D = 8, R = 2, ntof = 0, span = 1, maxd = 1, vm = 1, tm = 1, tang = 0, segred = -1, axtrim = 0;
  std::string str() const
  {
    std::ostringstream o;
    o << "D=" << D << ";R=" << R << ";ntof=" << ntof << ";span=" << span << ";maxd=" << maxd << ";vm=" << vm << ";tm=" << tm << ";tang=" << tang
      << ";segred=" << segred << ";axtrim=" << axtrim;
    return o.str();
  }
  static Tmpl parse(std::map<std::string, std::string>& m)
  {
    Tmpl t;
    auto gi = [&](const char* k, int d) { auto it = m.find(k); return it == m.end() ? d : atoi(it->second.c_str()); };
    t.D = gi("D", 8); t.R = gi("R", 2); t.ntof = gi("ntof", 0); t.span = gi("span", 1); t.maxd = gi("maxd", 1); t.vm = gi("vm", 1);
    t.tm = gi("tm", 1); t.tang = gi("tang", 0); t.segred = gi("segred", -1); t.axtrim = gi("axtrim", 0);
    return t;
  }
};

enum { cA = 0, cA2, cAs, cB, cXring, cXtang, cXax, cXtof, NCLS };
static const char* CLS_NAME[NCLS] = { "A", "A2", "As", "B", "Xring", "Xtang", "Xax", "Xtof" };

struct World
{
  Tmpl t;
  shared_ptr<Scanner> sc;
  shared_ptr<ProjDataInfo> tmpl, lm_pdi;
  Geo g;
  shared_ptr<ExamInfo> exam;
  bool tof = false;
  Stream all_events;    // every ordered detector pair x unmashed TOF index, once
  std::vector<Rec> cls; // alphabet classes; kind==0: class does not exist for this template
  std::vector<long> reject_count = std::vector<long>(6, 0);
  long bins_with_2_pairs = 0;
  std::vector<uint32_t> perm; // storage position in ProjDataInMemory -> Geo index
};

static shared_ptr<World> make_world(const Tmpl& t)
{
  shared_ptr<World> w(new World);
  w->t = t;
  w->sc = small::cyl_scanner(t.D, t.R, t.ntof);
  w->tof = t.ntof > 0;
  w->tmpl = small::make_pdi(w->sc, t.span, t.maxd, t.D / 2 / t.vm, t.tang, false, w->tof ? t.tm : 0);
  if (t.segred >= 0 && t.segred < w->tmpl->get_max_segment_num()) w->tmpl->reduce_segment_range(-t.segred, t.segred);
  if (t.axtrim)
    {
      // drop the first axial position of segment 0 and the last one of the highest segment
      if (w->tmpl->get_num_axial_poss(0) > 1) w->tmpl->set_min_axial_pos_num(w->tmpl->get_min_axial_pos_num(0) + 1, 0);
      const int ms = w->tmpl->get_max_segment_num();
      if (ms > 0 && w->tmpl->get_num_axial_poss(ms) > 1) w->tmpl->set_max_axial_pos_num(w->tmpl->get_max_axial_pos_num(ms) - 1, ms);
    }
  // the list-mode data's own geometry: uncompressed
  w->lm_pdi = small::make_pdi(w->sc, 1, t.R - 1, 0, 0, false, w->tof ? 1 : 0);
  w->g.init(w->tmpl);
  w->exam.reset(new ExamInfo);
  w->exam->imaging_modality = ImagingModality::PT;
  const int tmax = w->tof ? (t.ntof - 1) / 2 : 0;
  for (int a1 = 0; a1 < t.R; ++a1)
    for (int d1 = 0; d1 < t.D; ++d1)
      for (int a2 = 0; a2 < t.R; ++a2)
        for (int d2 = 0; d2 < t.D; ++d2)
          {
            if (d1 == d2) continue; // get_view_tangential_pos_num_for_det_num_pair has assert(det1 != det2): not a legal event
            for (int k = -tmax; k <= tmax; ++k)
              {
                Rec r; r.kind = 'P'; r.a1 = a1; r.d1 = d1; r.a2 = a2; r.d2 = d2; r.tof = k;
                w->all_events.push_back(r);
              }
          }
  // alphabet classes from the reference binning with the template
  w->cls.assign(NCLS, Rec());
  std::vector<bool> have(NCLS, false);
  std::map<size_t, int> per_bin;
  Bin bA;
  for (const Rec& r : w->all_events)
    {
      Bin b;
      const int why = w->g.classify(r, b);
      w->reject_count[why]++;
      if (why == 0) per_bin[w->g.index(b)]++;
      if (why == 1 && !have[cXring]) { w->cls[cXring] = r; have[cXring] = true; }
      if (why == 2 && !have[cXtang]) { w->cls[cXtang] = r; have[cXtang] = true; }
      if (why == 3 && !have[cXax]) { w->cls[cXax] = r; have[cXax] = true; }
      if (why == 0 && !have[cA] && b.segment_num() == w->g.min_seg && b.timing_pos_num() == w->g.min_tof)
        { w->cls[cA] = r; have[cA] = true; bA = b; }
    }
  for (auto& kv : per_bin) if (kv.second >= 2) w->bins_with_2_pairs++;
  if (have[cA])
    {
      const Rec& A = w->cls[cA];
      Rec s = A; std::swap(s.a1, s.a2); std::swap(s.d1, s.d2); s.tof = -A.tof;
      w->cls[cAs] = s; have[cAs] = true;
      for (const Rec& r : w->all_events)
        {
          Bin b;
          if (w->g.classify(r, b) != 0) continue;
          const bool same_lor = (r.a1 == A.a1 && r.d1 == A.d1 && r.a2 == A.a2 && r.d2 == A.d2) || (r.a1 == A.a2 && r.d1 == A.d2 && r.a2 == A.a1 && r.d2 == A.d1);
          if (!have[cA2] && !same_lor && w->g.index(b) == w->g.index(bA)) { w->cls[cA2] = r; have[cA2] = true; }
          if (!have[cB] && b.segment_num() != bA.segment_num() && (w->g.ntof() == 1 || b.timing_pos_num() != bA.timing_pos_num()))
            { w->cls[cB] = r; have[cB] = true; }
        }
      if (!have[cB]) // single segment: another TOF bin, or just another bin
        for (const Rec& r : w->all_events)
          {
            Bin b;
            if (w->g.classify(r, b) != 0 || w->g.index(b) == w->g.index(bA)) continue;
            if (w->g.ntof() > 1 && b.timing_pos_num() == bA.timing_pos_num()) continue;
            w->cls[cB] = r; have[cB] = true; break;
          }
    }
  if (w->tof && have[cA])
    {
      // an unmashed TOF index beyond the scanner's range: mapped outside the template's TOF range
      Rec r = w->cls[cA]; r.tof = tmax + std::max(1, t.tm);
      Bin b;
      if (w->g.classify(r, b) == 4) { w->cls[cXtof] = r; have[cXtof] = true; }
    }
  for (int c = 0; c < NCLS; ++c) if (!have[c]) w->cls[c].kind = 0;
  // storage order of ProjDataInMemory, found through its own API (set_segment of labelled segments, then the flat iterator)
  {
    ProjDataInMemory pd(w->exam, w->tmpl);
    pd.fill(0.F);
    for (int k = w->g.min_tof; k <= w->g.max_tof; ++k)
      for (int sg = w->g.min_seg; sg <= w->g.max_seg; ++sg)
        {
          SegmentByView<float> seg = w->tmpl->get_empty_segment_by_view(sg, false, k);
          for (int vw = w->g.min_view; vw <= w->g.max_view; ++vw)
            for (int a = w->g.min_ax[sg - w->g.min_seg]; a <= w->g.max_ax[sg - w->g.min_seg]; ++a)
              for (int tp = w->g.min_tang; tp <= w->g.max_tang; ++tp) seg[vw][a][tp] = float(w->g.index(Bin(sg, vw, a, tp, k)) + 1);
          pd.set_segment(seg);
        }
    std::vector<char> seen(w->g.nbins, 0);
    for (auto it = pd.begin_all(); it != pd.end_all(); ++it)
      {
        const long idx = (long)*it - 1;
        if (idx < 0 || idx >= (long)w->g.nbins || seen[idx]) throw std::runtime_error("ProjDataInMemory storage is not a permutation of the bins");
        seen[idx] = 1;
        w->perm.push_back((uint32_t)idx);
      }
    if (w->perm.size() != w->g.nbins) throw std::runtime_error("ProjDataInMemory storage size != number of bins");
  }
  return w;
}
static std::map<std::string, shared_ptr<World>> g_worlds;
static shared_ptr<World> world(const Tmpl& t)
{
  auto it = g_worlds.find(t.str());
  if (it != g_worlds.end()) return it->second;
  return g_worlds[t.str()] = make_world(t);
}

static std::vector<float> flatten_fast(const ProjDataInMemory& pd, const World& w)
{
  std::vector<float> v(w.g.nbins);
  size_t pos = 0;
  for (auto it = pd.begin_all(); it != pd.end_all(); ++it, ++pos) v[w.perm[pos]] = *it;
  return v;
}

// ------------------------------------------------------------------------------------------------ running the real LmToProjData
struct Lm2PD : public LmToProjData
{
  std::vector<std::vector<float>> frames;
  const World* w = nullptr;
  ProjDataInMemory* out = nullptr;
  bool slow = false;
  std::vector<float> grab() const { return slow ? lmref::flatten(*out, w->g) : flatten_fast(*out, *w); }
  // documented hook "will be called when a new time frame starts": frame n-1 is complete in the output at this point
  void start_new_time_frame(const unsigned int n) override
  {
    if (n > 1) frames.push_back(grab());
  }
};

struct Mode
{
  std::vector<std::pair<int, int>> frames; // time mode: frames [a,b) in whole seconds (one process_data call)
  long n = 0;                              // count mode when > 0
  std::string str() const
  {
    if (n > 0) return "n" + std::to_string(n);
    std::string s = "f";
    for (size_t i = 0; i < frames.size(); ++i) { if (i) s += "|"; s += std::to_string(frames[i].first) + "-" + std::to_string(frames[i].second); }
    return s;
  }
  static Mode parse(const std::string& s)
  {
    Mode m;
    if (s.empty()) return m;
    if (s[0] == 'n') { m.n = atol(s.c_str() + 1); return m; }
    for (auto& f : vmc::split(s.substr(1), '|'))
      {
        auto ab = vmc::split(f, '-');
        if (ab.size() == 2) m.frames.push_back({ atoi(ab[0].c_str()), atoi(ab[1].c_str()) });
      }
    return m;
  }
  const char* kind() const { return n > 0 ? "event_count" : frames.size() > 1 ? "frame_partition" : "single_frame"; }
};
static const Store STORES[4] = { { true, true }, { true, false }, { false, true }, { false, false } };
static const char* STORE_NAME[4] = { "P-D", "P", "D", "none" };

struct RunStat { long reads = 0, rewinds = 0; };

// returns per-frame flattened outputs; throws what STIR throws
static std::vector<std::vector<float>> run_real(const World& w, const Stream& s, const Mode& m, const Store& st, int ms, int mt, RunStat* stat = nullptr,
                                                bool slow_flatten = false, shared_ptr<ProjDataInMemory>* keep = nullptr)
{
  shared_ptr<lmref::MemListMode> lm(new lmref::MemListMode(w.lm_pdi, s));
  Lm2PD conv;
  conv.set_template_proj_data_info_sptr(w.tmpl);
  conv.set_input_data(shared_ptr<ExamData>(lm));
  conv.set_output_filename_prefix("unused");
  shared_ptr<ProjDataInMemory> outm(new ProjDataInMemory(w.exam, w.tmpl));
  outm->fill(SENTINEL);
  shared_ptr<ProjData> out(outm);
  conv.set_output_projdata_sptr(out);
  conv.w = &w;
  conv.out = outm.get();
  conv.slow = slow_flatten;
  conv.set_store_prompts(st.prompts);
  conv.set_store_delayeds(st.delayeds);
  conv.set_num_segments_in_memory(ms);
  conv.num_timing_poss_in_memory = mt; // parse key "num_TOF_bins_in_memory" (there is no setter)
  if (m.n > 0)
    conv.set_num_events_to_store(m.n);
  else
    {
      std::vector<std::pair<double, double>> fr;
      for (auto& f : m.frames) fr.push_back({ (double)f.first, (double)f.second });
      conv.set_time_frame_definitions(TimeFrameDefinitions(fr));
    }
  conv.set_up();
  conv.process_data();
  conv.frames.push_back(conv.grab());
  if (stat) { stat->reads = lm->n_read; stat->rewinds = lm->n_rewind; }
  if (keep) *keep = outm;
  return conv.frames;
}

static std::string first_diff(const World& w, const std::vector<float>& impl, const std::vector<float>& ref)
{
  if (impl.size() != ref.size()) return "sizes differ";
  const std::vector<Bin> bins = w.g.bins();
  long nd = 0; std::string first;
  for (size_t i = 0; i < impl.size(); ++i)
    if (impl[i] != ref[i] && !nd++) first = small::bin_str(bins[i]) + ": LmToProjData " + vmc::str(impl[i]) + ", reference " + vmc::str(ref[i]);
  return vmc::str(nd) + " bins differ, first " + first;
}

static std::string hcase_str(const World& w, const Stream& s, const Mode& m, int store, int ms, int mt)
{
  return "part=H;" + w.t.str() + ";s=" + lmref::stream_str(s) + ";mode=" + m.str() + ";store=" + std::to_string(store) + ";ms=" + std::to_string(ms)
         + ";mt=" + std::to_string(mt);
}

// one (stream, mode, store): reference, full-memory run, then every other batching.  only_ms/only_mt > 0: just that batching (replay).
static void check_mode(vmc::Ctx& ctx, const World& w, const Stream& s, const Mode& m, int store, int only_ms = 0, int only_mt = 0,
                       std::vector<float>* whole_out = nullptr, bool slow_flatten = false)
{
  const Store& st = STORES[store];
  const int nseg = w.g.nseg(), ntof = w.g.ntof();
  bool gap = false;
  for (const Rec& r : s) if (r.kind == 'T' && r.dt > 1) gap = true;
  // a stream whose time marks skip more than a second is its own class (coarse key: one defect there should not print one line per store/TOF combination)
  const std::string keytail = gap ? std::string(";mode=") + m.kind() + ";time_marks=with_gap"
                                  : std::string(";mode=") + m.kind() + ";store=" + STORE_NAME[store] + ";tof=" + (w.tof ? "1" : "0") + ";time_marks=regular";
  if (!st.prompts && !st.delayeds)
    {
      std::string what;
      if (small::throws([&] { run_real(w, s, m, st, nseg, ntof); }, &what)) ctx.count("rejected_configs");
      else ctx.observe("store_prompts=0 and store_delayeds=0 was not rejected by LmToProjData::set_up");
      return;
    }
  // reference, per frame
  std::vector<std::vector<float>> ref;
  long accepted = 0;
  if (m.n > 0) { Select sel; sel.num_events = m.n; ref.push_back(lmref::ref_histogram(w.g, s, sel, st, &accepted)); }
  else
    for (auto& f : m.frames)
      {
        Select sel; sel.start = f.first; sel.end = f.second;
        long a = 0;
        ref.push_back(lmref::ref_histogram(w.g, s, sel, st, &a));
        accepted += a;
      }
  if (accepted > 0) ctx.count("selections_with_accepted_events"); else ctx.count("selections_without_accepted_events");
  bool full_ok = true;
  for (int pass = 0; pass < 2; ++pass) // pass 0: everything in memory; pass 1: every other batching
    for (int ms = nseg; ms >= 1; --ms)
      for (int mt = ntof; mt >= 1; --mt)
        {
          const bool full = ms == nseg && mt == ntof;
          if ((pass == 0) != full) continue;
          if (!full && only_ms > 0 && (ms != only_ms || mt != only_mt)) continue;
          if (!full && !full_ok) continue; // a batched run is only informative when the unbatched one is right
          std::vector<std::vector<float>> impl;
          std::string what;
          RunStat stat;
          ctx.count("traces_validated_against_impl");
          ctx.count("states");
          if (small::throws([&] { impl = run_real(w, s, m, st, ms, mt, &stat, slow_flatten); }, &what))
            {
              ctx.violation("part=H;clause=exception" + keytail, hcase_str(w, s, m, store, ms, mt), "LmToProjData threw: " + what.substr(0, 300));
              if (full) full_ok = false;
              continue;
            }
          ctx.count("transitions", stat.reads);
          if (stat.rewinds) ctx.count("runs_with_rewind");
          if (impl.size() != ref.size())
            {
              ctx.violation("part=H;clause=frame_hook" + keytail, hcase_str(w, s, m, store, ms, mt), "number of frames processed " + vmc::str(impl.size()) + " != " + vmc::str(ref.size()));
              if (full) full_ok = false;
              continue;
            }
          for (size_t f = 0; f < ref.size(); ++f)
            if (impl[f] != ref[f])
              {
                const std::string clause = full ? "counts" : std::string("batching;dim=") + (ms != nseg && mt != ntof ? "seg+tof" : ms != nseg ? "seg" : "tof");
                ctx.violation("part=H;clause=" + clause + keytail, hcase_str(w, s, m, store, ms, mt),
                              "frame " + vmc::str(f + 1) + " of " + m.str() + " (num_segments_in_memory=" + vmc::str(ms) + "/" + vmc::str(nseg) + ", num_TOF_bins_in_memory="
                                  + vmc::str(mt) + "/" + vmc::str(ntof) + "): " + first_diff(w, impl[f], ref[f]));
                if (full) full_ok = false;
                break;
              }
          if (full && full_ok)
            {
              if (m.n == 0 && m.frames.size() == 1 && whole_out) *whole_out = impl[0];
              if (m.n == 0 && m.frames.size() > 1 && whole_out && !whole_out->empty())
                {
                  // frames of a partition add up to the whole interval (real vs real)
                  std::vector<float> sum(whole_out->size(), 0.F);
                  for (auto& fr : impl) for (size_t i = 0; i < sum.size(); ++i) sum[i] += fr[i];
                  ctx.count("partition_sums_checked");
                  if (sum != *whole_out)
                    ctx.violation("part=H;clause=frames_sum" + keytail, hcase_str(w, s, m, store, ms, mt),
                                  "sum over the frames of " + m.str() + " != histogram of the whole interval: " + first_diff(w, sum, *whole_out));
                }
            }
        }
}

// all selections for a stream.  max_counts: 0 = every num_events_to_store 1..n+1, else only {1,2,n/2,n,n+1}
static void check_stream(vmc::Ctx& ctx, const World& w, const Stream& s, bool few_counts = false, bool slow_flatten = false)
{
  int T = 1, nev = 0; // T = clock after the last tick + 1
  for (const Rec& r : s) { if (r.kind == 'T') T += r.dt; else ++nev; }
  ctx.current("part=H", "part=H;" + w.t.str() + ";s=" + lmref::stream_str(s));
  ctx.count("streams");
  ctx.count("evaluations");
  ctx.maxi("max_stream_length", (long long)s.size());
  for (int store = 0; store < 4; ++store)
    {
      if (store == 3) { Mode m; m.frames = { { 0, T } }; check_mode(ctx, w, s, m, store); continue; }
      std::vector<float> whole;
      { Mode m; m.frames = { { 0, T } }; check_mode(ctx, w, s, m, store, 0, 0, &whole, slow_flatten); }
      // single frames [a,b)
      for (int a = 0; a < T; ++a)
        for (int b = a + 1; b <= T; ++b)
          {
            if (a == 0 && b == T) continue;
            Mode m; m.frames = { { a, b } };
            check_mode(ctx, w, s, m, store);
          }
      // partitions of [0,T) into 2 and 3 frames
      for (int c1 = 1; c1 < T; ++c1)
        {
          { Mode m; m.frames = { { 0, c1 }, { c1, T } }; check_mode(ctx, w, s, m, store, 0, 0, &whole); }
          for (int c2 = c1 + 1; c2 < T; ++c2)
            { Mode m; m.frames = { { 0, c1 }, { c1, c2 }, { c2, T } }; check_mode(ctx, w, s, m, store, 0, 0, &whole); }
        }
      // event-count cut-offs
      std::set<long> ns;
      if (!few_counts) for (long n = 1; n <= nev + 1; ++n) ns.insert(n);
      else for (long n : { 1L, 2L, (long)nev / 2, (long)nev, (long)nev + 1 }) if (n >= 1) ns.insert(n);
      for (long n : ns) { Mode m; m.n = n; check_mode(ctx, w, s, m, store); }
    }
}

// ------------------------------------------------------------------------------------------------ RE-USED LmToProjData objects
// One history = the SAME LmToProjData object run 2 (thorough also 3) times; between the runs the setters whose value changes are called
// (time frames / num_events_to_store, store flags, num_segments_in_memory, num_TOF_bins_in_memory, a new output) and the input is rewound
// (reset() of the same list-mode object / set_input_data with a new object for the same / another stream; whether process_data() itself must
// rewind is not documented and therefore not demanded).  After EVERY run the output must be the reference histogram of the CURRENT settings.
struct HRun
{
  Mode m; int store = 0, ms = 1, mt = 1;
  int input = 0; // runs >= 2: 0 reset() of the same list-mode object, 1 set_input_data(new object, same stream), 2 set_input_data(other stream)
  std::string str() const { return m.str() + "/" + vmc::str(store) + "/" + vmc::str(ms) + "/" + vmc::str(mt) + "/" + vmc::str(input); }
  static HRun parse(const std::string& s)
  {
    HRun r; auto p = vmc::split(s, '/'); p.resize(5, "0");
    r.m = Mode::parse(p[0]); r.store = atoi(p[1].c_str()); r.ms = atoi(p[2].c_str()); r.mt = atoi(p[3].c_str()); r.input = atoi(p[4].c_str());
    return r;
  }
};
static void check_h_reuse(vmc::Ctx& ctx, const World& w, const Stream& s0, const Stream& s1, const std::vector<HRun>& runs)
{
  std::string h;
  for (size_t i = 0; i < runs.size(); ++i) { if (i) h += "~"; h += runs[i].str(); }
  const std::string kase = "part=HR;" + w.t.str() + ";s=" + lmref::stream_str(s0) + ";s2=" + lmref::stream_str(s1) + ";runs=" + h;
  ctx.current("part=H;reuse", kase);
  ctx.count("H_reuse_histories");
  ctx.count("evaluations");
  Stream cur = s0, other = s1;
  shared_ptr<lmref::MemListMode> lm(new lmref::MemListMode(w.lm_pdi, cur));
  Lm2PD conv;
  conv.w = &w;
  std::vector<float> prev_ref;
  for (size_t k = 0; k < runs.size(); ++k)
    {
      const HRun& r = runs[k];
      const Store& st = STORES[r.store];
      std::string changed;
      auto add = [&](const std::string& x) { if (!changed.empty()) changed += "+"; changed += x; };
      shared_ptr<ProjDataInMemory> outm(new ProjDataInMemory(w.exam, w.tmpl));
      outm->fill(SENTINEL);
      std::string what;
      long setters = 0;
      const long reads0 = lm->n_read;
      long reads1 = 0;
      const bool threw = small::throws(
          [&] {
            const HRun* p = k ? &runs[k - 1] : nullptr;
            if (!p)
              {
                conv.set_template_proj_data_info_sptr(w.tmpl);
                conv.set_input_data(shared_ptr<ExamData>(lm));
                conv.set_output_filename_prefix("unused");
                setters += 3;
              }
            else if (r.input == 0) { lm->reset(); add("input:reset"); }
            else
              {
                if (r.input == 2) std::swap(cur, other);
                lm.reset(new lmref::MemListMode(w.lm_pdi, cur));
                conv.set_input_data(shared_ptr<ExamData>(lm)); ++setters;
                add(r.input == 2 ? "input:other_stream" : "input:same_stream_new_object");
              }
            shared_ptr<ProjData> out(outm);
            conv.set_output_projdata_sptr(out); ++setters;
            conv.out = outm.get();
            conv.frames.clear();
            if (!p || p->store != r.store) { conv.set_store_prompts(st.prompts); conv.set_store_delayeds(st.delayeds); setters += 2; if (p) add("store"); }
            if (!p || p->ms != r.ms) { conv.set_num_segments_in_memory(r.ms); ++setters; if (p) add("num_segments_in_memory"); }
            if (!p || p->mt != r.mt) { conv.num_timing_poss_in_memory = r.mt; conv._already_setup = false; ++setters; if (p) add("num_TOF_bins_in_memory"); }
            if (!p || p->m.str() != r.m.str())
              {
                if (r.m.n > 0)
                  {
                    // "if larger than 0, frame definitions will be ignored"; a careful user also removes the old frame definitions
                    conv.set_num_events_to_store(r.m.n);
                    conv.set_time_frame_definitions(TimeFrameDefinitions());
                  }
                else
                  {
                    std::vector<std::pair<double, double>> fr;
                    for (auto& f : r.m.frames) fr.push_back({ (double)f.first, (double)f.second });
                    conv.set_num_events_to_store(0);
                    conv.set_time_frame_definitions(TimeFrameDefinitions(fr));
                  }
                setters += 2;
                if (p) add(std::string("mode:") + p->m.kind() + "->" + r.m.kind());
              }
            conv.set_up();
            conv.process_data();
            conv.frames.push_back(conv.grab());
            reads1 = lm->n_read;
          },
          &what);
      if (changed.empty()) changed = k ? "nothing" : "fresh";
      // key: a switch between time-frame mode and event-count mode is one class whatever else changed (one defect there = one line)
      std::string keychanged = changed;
      {
        std::string seq; bool switched = false;
        for (size_t i = 0; i <= k; ++i) { seq += runs[i].m.n > 0 ? "event_count" : "time_frames"; if (i < k) seq += "->"; if (i && (runs[i].m.n > 0) != (runs[i - 1].m.n > 0)) switched = true; }
        if (switched) keychanged = "mode:" + seq;
      }
      const std::string keytail = ";run=" + vmc::str(k + 1) + ";changed=" + keychanged + ";tof=" + (w.tof ? "1" : "0");
      ctx.count("states");
      ctx.count("traces_validated_against_impl");
      ctx.count("H_reuse_runs");
      if (threw)
        {
          ctx.violation("part=H;reuse=1;clause=exception" + keytail, kase, "re-used LmToProjData threw in run " + vmc::str(k + 1) + ": " + what.substr(0, 300));
          return;
        }
      ctx.count("transitions", setters + (r.input == 0 ? reads1 - reads0 : reads1));
      std::vector<std::vector<float>> ref;
      long accepted = 0;
      if (r.m.n > 0) { Select sel; sel.num_events = r.m.n; ref.push_back(lmref::ref_histogram(w.g, cur, sel, st, &accepted)); }
      else
        for (auto& f : r.m.frames)
          {
            Select sel; sel.start = f.first; sel.end = f.second;
            long a = 0;
            ref.push_back(lmref::ref_histogram(w.g, cur, sel, st, &a));
            accepted += a;
          }
      if (conv.frames.size() != ref.size())
        {
          ctx.violation("part=H;reuse=1;clause=frame_hook" + keytail, kase, "run " + vmc::str(k + 1) + " (" + r.str() + "): number of frames processed " + vmc::str(conv.frames.size()) + " != " + vmc::str(ref.size()));
          return;
        }
      for (size_t f = 0; f < ref.size(); ++f)
        if (conv.frames[f] != ref[f])
          {
            ctx.violation("part=H;reuse=1;clause=counts" + keytail, kase,
                          "run " + vmc::str(k + 1) + " of the same LmToProjData object (mode/store/num_segments_in_memory/num_TOF_bins_in_memory/input = " + r.str() + "; changed: " + changed + "), frame "
                              + vmc::str(f + 1) + ": " + first_diff(w, conv.frames[f], ref[f]));
            return;
          }
      if (k > 0)
        {
          if (ref.back() != prev_ref) { ctx.count("H_reuse_runs_that_must_change_the_result"); if (accepted > 0) ctx.nontrivial(kase + "#" + vmc::str(k)); }
          else ctx.count("H_reuse_runs_that_must_keep_the_result");
        }
      prev_ref = ref.back();
    }
}

// the settings alphabet of a re-used LmToProjData for a stream
static std::vector<HRun> h_reuse_settings(const World& w, const Stream& s, bool reduced)
{
  int T = 1, nev = 0;
  for (const Rec& r : s) { if (r.kind == 'T') T += r.dt; else ++nev; }
  std::vector<Mode> modes;
  { Mode m; m.frames = { { 0, T } }; modes.push_back(m); }
  if (T > 1)
    {
      { Mode m; m.frames = { { 0, 1 } }; modes.push_back(m); }
      { Mode m; m.frames = { { T - 1, T } }; modes.push_back(m); }
      { Mode m; m.frames = { { 0, 1 }, { 1, T } }; modes.push_back(m); }
    }
  { Mode m; m.n = 1; modes.push_back(m); }
  if (nev > 1) { Mode m; m.n = 2; modes.push_back(m); }
  std::vector<HRun> v;
  const int nseg = w.g.nseg(), ntof = w.g.ntof();
  std::set<std::pair<int, int>> batch = { { nseg, ntof }, { 1, 1 } };
  if (!reduced) { batch.insert({ nseg, 1 }); batch.insert({ 1, ntof }); }
  for (const Mode& m : modes)
    for (int store = 0; store < (reduced ? 2 : 3); ++store)
      for (auto it = batch.rbegin(); it != batch.rend(); ++it)
        {
          HRun r; r.m = m; r.store = store; r.ms = it->first; r.mt = it->second;
          v.push_back(r);
        }
  return v;
}

// ------------------------------------------------------------------------------------------------ alphabets
static std::vector<Rec> alphabet(const World& w, int kind, std::vector<std::string>* names = nullptr)
{
  std::vector<Rec> a;
  auto add = [&](Rec r, char k, const std::string& nm) { r.kind = k; a.push_back(r); if (names) names->push_back(nm); };
  Rec tick; tick.kind = 'T'; tick.dt = 1;
  add(tick, 'T', "tick1");
  if (kind == 0)
    {
      if (w.cls[cA].kind) { add(w.cls[cA], 'P', "P(A)"); add(w.cls[cA], 'D', "D(A)"); }
      if (w.cls[cB].kind) { add(w.cls[cB], 'P', "P(B)"); add(w.cls[cB], 'D', "D(B)"); }
      for (int c : { cXring, cXtang, cXtof, cXax }) if (w.cls[c].kind) { add(w.cls[c], 'P', std::string("P(") + CLS_NAME[c] + ")"); break; }
    }
  else
    {
      Rec t2 = tick; t2.dt = 2;
      add(t2, 'T', "tick2");
      for (int c = 0; c < NCLS; ++c)
        if (w.cls[c].kind) { add(w.cls[c], 'P', std::string("P(") + CLS_NAME[c] + ")"); add(w.cls[c], 'D', std::string("D(") + CLS_NAME[c] + ")"); }
    }
  return a;
}

// the stream with every ordered detector pair x TOF index once: alternately prompt/delayed (variant 1) or prompts only (variant 0), a tick after every quarter
static Stream all_pairs_stream(const World& w, int variant)
{
  Stream s;
  const size_t n = w.all_events.size(), q = std::max<size_t>(1, n / 4);
  for (size_t i = 0; i < n; ++i)
    {
      Rec r = w.all_events[i];
      r.kind = (variant == 1 && i % 3 == 1) ? 'D' : 'P';
      s.push_back(r);
      if ((i + 1) % q == 0 && i + 1 < n) { Rec t; t.kind = 'T'; t.dt = 1; s.push_back(t); }
    }
  return s;
}

// ================================================================================================ Part G
typedef DiscretisedDensity<3, float> Target;
typedef PoissonLogLikelihoodWithLinearModelForMeanAndListModeDataWithProjMatrixByBin<Target> LMObj;
typedef PoissonLogLikelihoodWithLinearModelForMeanAndProjData<Target> PDObj;
static const double EPSF = std::numeric_limits<float>::epsilon();
#ifdef VERIF_FLAVOUR_OMP
static const char* BUILD = "openmp";
#else
static const char* BUILD = "no_openmp";
#endif

static shared_ptr<ProjMatrixByBinUsingRayTracing> make_matrix(int sym)
{
  shared_ptr<ProjMatrixByBinUsingRayTracing> m(new ProjMatrixByBinUsingRayTracing());
  if (!sym)
    {
      m->set_do_symmetry_90degrees_min_phi(false);
      m->set_do_symmetry_180degrees_min_phi(false);
      m->set_do_symmetry_swap_segment(false);
      m->set_do_symmetry_swap_s(false);
      m->set_do_symmetry_shift_z(false);
      m->enable_cache(false);
    }
  m->set_num_tangential_LORs(1);
  m->set_restrict_to_cylindrical_FOV(true);
  return m;
}

struct GWorld
{
  shared_ptr<World> w;
  shared_ptr<VoxelsOnCartesianGrid<float>> im;
  size_t nvox = 0;
  std::vector<std::vector<std::pair<int, double>>> rows;    // P rows indexed by Geo index (TOF rows for TOF data)
  std::vector<std::vector<std::pair<int, double>>> rows_nt; // non-TOF rows indexed by Geo index of the TOF bin (sensitivity without TOF)
  std::vector<double> additive;                              // labelled additive term per Geo index
  std::map<int, std::vector<int>> subset_of;                 // key sym*100+N -> subset per Geo index
  std::vector<Bin> bins;
};
static std::map<std::string, shared_ptr<GWorld>> g_gworlds;

static shared_ptr<GWorld> gworld(const Tmpl& t)
{
  auto it = g_gworlds.find(t.str());
  if (it != g_gworlds.end()) return it->second;
  shared_ptr<GWorld> G(new GWorld);
  G->w = world(t);
  const World& w = *G->w;
  G->im = small::make_image(*w.tmpl);
  G->im->set_exam_info(*w.exam);
  G->bins = w.g.bins();
  {
    auto m = small::direct_matrix(w.tmpl, G->im);
    small::DenseP P = small::extract_P(*m, *w.tmpl, *G->im);
    G->nvox = P.nvox;
    G->rows.resize(w.g.nbins);
    for (size_t i = 0; i < P.bins.size(); ++i) G->rows[w.g.index(P.bins[i])] = P.rows[i];
  }
  if (w.tof)
    {
      shared_ptr<ProjDataInfo> nt = w.tmpl->create_non_tof_clone();
      auto m = small::direct_matrix(nt, G->im);
      small::DenseP P = small::extract_P(*m, *nt, *G->im);
      G->rows_nt.resize(w.g.nbins);
      for (size_t i = 0; i < P.bins.size(); ++i)
        for (int k = w.g.min_tof; k <= w.g.max_tof; ++k)
          {
            Bin b = P.bins[i]; b.timing_pos_num() = k;
            G->rows_nt[w.g.index(b)] = P.rows[i];
          }
    }
  else
    G->rows_nt = G->rows;
  G->additive.resize(w.g.nbins);
  for (size_t i = 0; i < w.g.nbins; ++i) G->additive[i] = 0.25 + double((i * 5 + i / 7) % 7) / 8.0; // exactly representable in float, differs between TOF bins
  return g_gworlds[t.str()] = G;
}

// subset of every bin as the projection-data objective function defines it (C06a): related groups of the basic view/segments of subset S
static const std::vector<int>& subsets_of(GWorld& G, int sym, int N)
{
  const int key = sym * 100 + N;
  auto it = G.subset_of.find(key);
  if (it != G.subset_of.end()) return it->second;
  const World& w = *G.w;
  auto m = make_matrix(sym);
  m->set_up(w.tmpl, G.im);
  const DataSymmetriesForViewSegmentNumbers& symm = *m->get_symmetries_ptr();
  std::map<std::pair<int, int>, int> sub;
  std::vector<ViewSegmentNumbers> rel;
  for (int S = 0; S < N; ++S)
    for (const ViewSegmentNumbers& vs : detail::find_basic_vs_nums_in_subset(*w.tmpl, symm, w.g.min_seg, w.g.max_seg, S, N))
      {
        symm.get_related_view_segment_numbers(rel, vs);
        for (const ViewSegmentNumbers& r : rel)
          {
            auto k2 = std::make_pair(r.segment_num(), r.view_num());
            if (sub.count(k2)) throw std::runtime_error("subsets are not a partition (C06)");
            sub[k2] = S;
          }
      }
  std::vector<int> out(w.g.nbins, -1);
  for (size_t i = 0; i < w.g.nbins; ++i)
    {
      auto f = sub.find(std::make_pair(G.bins[i].segment_num(), G.bins[i].view_num()));
      if (f == sub.end()) throw std::runtime_error("subsets are not a partition (C06)");
      out[i] = f->second;
    }
  return G.subset_of[key] = out;
}

static shared_ptr<ProjDataInMemory> projdata_from(const World& w, const std::vector<double>& v)
{
  shared_ptr<ProjDataInMemory> pd(new ProjDataInMemory(w.exam, w.tmpl));
  for (int k = w.g.min_tof; k <= w.g.max_tof; ++k)
    for (int sg = w.g.min_seg; sg <= w.g.max_seg; ++sg)
      {
        SegmentByView<float> seg = w.tmpl->get_empty_segment_by_view(sg, false, k);
        for (int vw = w.g.min_view; vw <= w.g.max_view; ++vw)
          for (int a = w.g.min_ax[sg - w.g.min_seg]; a <= w.g.max_ax[sg - w.g.min_seg]; ++a)
            for (int tp = w.g.min_tang; tp <= w.g.max_tang; ++tp) seg[vw][a][tp] = (float)v[w.g.index(Bin(sg, vw, a, tp, k))];
        pd->set_segment(seg);
      }
  return pd;
}

struct GCfg
{
  int N = 1, sym = 0, add = 0, cache = 0, img = 0;
  int fa = -1, fb = -1; // frame [fa,fb) (frame_defs with this single frame); fa < 0: no frame definitions (all events)
  std::string str() const
  {
    std::ostringstream o;
    o << "N=" << N << ";sym=" << sym << ";add=" << add << ";cache=" << cache << ";img=" << img << ";fa=" << fa << ";fb=" << fb;
    return o.str();
  }
  static GCfg parse(std::map<std::string, std::string>& m)
  {
    GCfg c;
    auto gi = [&](const char* k, int d) { auto it = m.find(k); return it == m.end() ? d : atoi(it->second.c_str()); };
    c.N = gi("N", 1); c.sym = gi("sym", 0); c.add = gi("add", 0); c.cache = gi("cache", 0); c.img = gi("img", 0); c.fa = gi("fa", -1); c.fb = gi("fb", -1);
    return c;
  }
};

static std::vector<double> from_image(const Target& im)
{
  std::vector<double> v;
  for (auto it = im.begin_all_const(); it != im.end_all_const(); ++it) v.push_back(*it);
  return v;
}
static shared_ptr<Target> image_pattern(const GWorld& G, int kind)
{
  shared_ptr<Target> im(G.im->clone());
  size_t j = 0;
  for (auto it = im->begin_all(); it != im->end_all(); ++it, ++j) *it = kind == 0 ? 1.F : 0.5F + 0.25F * float((j * 7) % 11);
  return im;
}

static std::string g_cache_dir;

static void check_gradient(vmc::Ctx& ctx, GWorld& G, const Stream& s, const GCfg& c, bool with_projdata)
{
  const World& w = *G.w;
  const std::string kase = "part=G;" + w.t.str() + ";s=" + lmref::stream_str(s) + ";" + c.str();
  const std::string keytail = std::string(";tof=") + (w.tof ? "1" : "0") + ";add=" + vmc::str(c.add) + ";cache=" + (c.cache == 0 ? "off" : "on");
  ctx.current("part=G", kase);
  ctx.count("G_cases");
  ctx.count("states");
  int T = 1;
  for (const Rec& r : s) if (r.kind == 'T') T += r.dt;
  // ---- reference data: histogram of the prompts in the frame
  Select sel; sel.start = c.fa < 0 ? 0 : c.fa; sel.end = c.fa < 0 ? 1e30 : c.fb;
  long accepted = 0;
  const std::vector<float> y = lmref::ref_histogram(w.g, s, sel, STORES[1], &accepted);
  const std::vector<int>& subset_of = subsets_of(G, c.sym, c.N);
  shared_ptr<Target> est = image_pattern(G, c.img);
  const std::vector<double> lambda = from_image(*est);
  // ---- the real list-mode objective function
  shared_ptr<lmref::MemListMode> lm(new lmref::MemListMode(w.tmpl, s));
  shared_ptr<LMObj> obj(new LMObj);
  shared_ptr<ProjDataInMemory> addpd;
  std::string what;
  bool failed = false;
  if (small::throws(
          [&] {
            obj->set_input_data(shared_ptr<ExamData>(lm));
            obj->set_proj_matrix(make_matrix(c.sym));
            if (c.add) { addpd = projdata_from(w, G.additive); obj->set_additive_proj_data_sptr(addpd); }
            obj->set_num_subsets(c.N);
            obj->set_use_subset_sensitivities(true);
            obj->set_recompute_sensitivity(true);
            obj->set_cache_path(g_cache_dir);
            obj->set_cache_max_size((unsigned long)c.cache);
            obj->set_recompute_cache(true);
            if (c.fa >= 0)
              {
                std::vector<std::pair<double, double>> fr(1, { (double)c.fa, (double)c.fb });
                obj->frame_defs = TimeFrameDefinitions(fr);
              }
            failed = obj->set_up(est) != Succeeded::yes;
          },
          &what)
      || failed)
    {
      ctx.count("rejected_configs");
      ctx.observe("list-mode objective function set_up rejected " + c.str() + " for " + w.t.str() + ": " + what.substr(0, 200));
      return;
    }
  // ---- reference gradients per subset
  std::vector<double> ybar(w.g.nbins, 0.0);
  bool screened = false;
  for (size_t b = 0; b < w.g.nbins; ++b)
    {
      if (y[b] <= 0) continue;
      double f = c.add ? G.additive[b] : 0.0;
      for (auto& e : G.rows[b]) f += e.second * lambda[e.first];
      ybar[b] = f;
      if (f > 0 && y[b] / f > 1000.0) screened = true; // near the max_quotient = 10000 truncation
    }
  if (screened) { ctx.count("G_screened_near_truncation"); return; }
  shared_ptr<Target> out(est->get_empty_copy());
  auto compare = [&](const char* clause, int S, const std::vector<double>& impl, const std::vector<double>& ref, const std::vector<double>& Tsum) -> bool {
    double worst = 0; int at = -1;
    for (size_t j = 0; j < ref.size(); ++j)
      {
        const double tol = (64 * EPSF + 2e-6) * Tsum[j] + 1e-30;
        const double r = std::fabs(impl[j] - ref[j]) / tol;
        if (!(r <= worst)) { worst = r; at = (int)j; }
      }
    if (worst > 1.0)
      {
        bool all_zero = true;
        for (double x : impl) if (x != 0) all_zero = false;
        // an identically zero result is one class of failure whatever the configuration
        const std::string key = all_zero ? std::string("part=G;clause=") + clause + ";kind=all_zero;build=" + BUILD
                                         : std::string("part=G;clause=") + clause + ";kind=differs;build=" + BUILD + keytail;
        ctx.violation(key, kase + ";S=" + vmc::str(S),
                      std::string(clause) + " subset " + vmc::str(S) + "/" + vmc::str(c.N) + " voxel " + vmc::str(at) + ": list-mode objective " + vmc::str(impl[at]) + ", reference "
                          + vmc::str(ref[at]) + " (tolerance " + vmc::str((64 * EPSF + 2e-6) * Tsum[at]) + "; events in frame " + vmc::str(accepted) + ")");
        return false;
      }
    return true;
  };
  std::vector<double> total_impl(G.nvox, 0.0), total_ref(G.nvox, 0.0), total_T(G.nvox, 0.0);
  bool ok = true;
  long events_in_other_subsets = 0;
  for (int S = 0; S < c.N && ok; ++S)
    {
      std::vector<double> data(G.nvox, 0.0), sens(G.nvox, 0.0);
      for (size_t b = 0; b < w.g.nbins; ++b)
        {
          if (subset_of[b] != S) continue;
          for (auto& e : G.rows_nt[b]) sens[e.first] += e.second / (w.tof ? double(w.g.ntof()) : 1.0); // non-TOF row counted once per TOF bin index
          if (y[b] > 0 && ybar[b] > 0)
            for (auto& e : G.rows[b]) data[e.first] += y[b] * e.second / ybar[b];
        }
      for (size_t b = 0; b < w.g.nbins; ++b) if (y[b] > 0 && subset_of[b] != S) ++events_in_other_subsets;
      std::vector<double> gs, g;
      ctx.count("traces_validated_against_impl");
      if (small::throws([&] { obj->compute_sub_gradient_without_penalty_plus_sensitivity(*out, *est, S); gs = from_image(*out); }, &what))
        { ctx.violation(std::string("part=G;clause=exception;build=") + BUILD + keytail, kase + ";S=" + vmc::str(S), "compute_sub_gradient_without_penalty_plus_sensitivity threw: " + what.substr(0, 300)); return; }
      ok &= compare("data_term", S, gs, data, data);
      if (!ok) break;
      if (small::throws([&] { obj->compute_sub_gradient_without_penalty(*out, *est, S); g = from_image(*out); }, &what))
        { ctx.violation(std::string("part=G;clause=exception;build=") + BUILD + keytail, kase + ";S=" + vmc::str(S), "compute_sub_gradient_without_penalty threw: " + what.substr(0, 300)); return; }
      std::vector<double> ref(G.nvox), Ts(G.nvox);
      for (size_t j = 0; j < G.nvox; ++j) { ref[j] = data[j] - sens[j]; Ts[j] = data[j] + sens[j]; }
      if (!w.tof) ok &= compare("gradient", S, g, ref, Ts); // TOF: the sensitivity is computed without TOF, an approximation of the TOF sum; only the data term is compared
      else
        {
          // consistency only: gradient == data term - the objective function's own subset sensitivity
          std::vector<double> own = from_image(obj->get_subset_sensitivity(S)), r2(G.nvox), T2(G.nvox);
          for (size_t j = 0; j < G.nvox; ++j) { r2[j] = gs[j] - own[j]; T2[j] = std::fabs(gs[j]) + std::fabs(own[j]); }
          ok &= compare("gradient_vs_own_sensitivity", S, g, r2, T2);
        }
      for (size_t j = 0; j < G.nvox; ++j) { total_impl[j] += gs[j]; total_ref[j] += data[j]; total_T[j] += data[j]; }
    }
  if (accepted > 0) ctx.count("G_cases_with_events");
  if (events_in_other_subsets) ctx.count("G_cases_with_events_in_several_subsets");
  if (accepted > 0 && c.N > 1) ctx.nontrivial(kase);
  // ---- the statement literally: the projection-data objective function on the data histogrammed by the real LmToProjData
  if (ok && with_projdata)
    {
      Mode m; m.frames = { { c.fa < 0 ? 0 : c.fa, c.fa < 0 ? T : c.fb } };
      shared_ptr<ProjDataInMemory> hist;
      std::vector<std::vector<float>> fr;
      // histogram with the list-mode data's own geometry as template
      if (small::throws([&] { fr = run_real(w, s, m, STORES[1], w.g.nseg(), w.g.ntof(), nullptr, false, &hist); }, &what))
        { ctx.violation(std::string("part=G;clause=exception;build=") + BUILD + keytail, kase, "LmToProjData threw: " + what.substr(0, 300)); return; }
      shared_ptr<PDObj> pobj(new PDObj);
      failed = false;
      if (small::throws(
              [&] {
                pobj->set_proj_data_sptr(hist);
                shared_ptr<ProjMatrixByBin> pm = make_matrix(c.sym);
                shared_ptr<ProjectorByBinPair> pp(new ProjectorByBinPairUsingProjMatrixByBin(pm));
                pobj->set_projector_pair_sptr(pp);
                if (c.add) pobj->set_additive_proj_data_sptr(addpd);
                pobj->set_num_subsets(c.N);
                pobj->set_use_subset_sensitivities(true);
                pobj->set_recompute_sensitivity(true);
                failed = pobj->set_up(est) != Succeeded::yes;
              },
              &what)
          || failed)
        {
          ctx.count("projdata_objective_rejected");
          return;
        }
      ctx.count("G_projdata_comparisons");
      for (int S = 0; S < c.N; ++S)
        {
          std::vector<double> a, b;
          obj->compute_sub_gradient_without_penalty_plus_sensitivity(*out, *est, S); a = from_image(*out);
          pobj->compute_sub_gradient_without_penalty_plus_sensitivity(*out, *est, S); b = from_image(*out);
          std::vector<double> Ts(G.nvox);
          for (size_t j = 0; j < G.nvox; ++j) Ts[j] = std::fabs(a[j]) + std::fabs(b[j]);
          if (!compare("data_term_vs_projdata_objective", S, a, b, Ts)) break;
        }
    }
}

// ================================================================================================ Part G, RE-USED objective functions
// One history = the SAME list-mode objective function object set up 2 (thorough also 3) times; between the set_ups the setters whose value
// changes are called (set_num_subsets, set_use_subset_sensitivities, set_max_segment_num_to_process, set_cache_max_size) plus one extra action
// (set_input_data with a new object for the same / another stream, set_recompute_sensitivity(false), set_recompute_cache(false)).
// After EVERY set_up: data term, gradient and subset sensitivities must equal (a) the explicit-matrix reference for the CURRENT settings,
// (b) a freshly built list-mode objective function with the current settings, (c) the projection-data objective function on the data
// histogrammed by the real LmToProjData with the current settings.
struct RSet
{
  int N = 1, us = 1, ms = -1, cache = 0; // num_subsets, use_subset_sensitivities, max_segment_num_to_process, list-mode cache size
  int act = 0; // stages >= 2: 0 -, 1 set_input_data(new object, same stream), 2 set_input_data(other stream), 3 set_recompute_sensitivity(false), 4 set_recompute_cache(false)
  std::string str() const { return vmc::str(N) + "." + vmc::str(us) + "." + vmc::str(ms) + "." + vmc::str(cache) + "." + vmc::str(act); }
  std::string skey() const { return vmc::str(N) + "." + vmc::str(us) + "." + vmc::str(ms) + "." + vmc::str(cache); }
  bool same_settings(const RSet& o) const { return N == o.N && us == o.us && ms == o.ms && cache == o.cache; }
};
struct RCfg { int sym = 0, add = 0, sv = 0; };
struct ObjRes { bool ok = false, g_rejected = false; std::string what; std::vector<std::vector<double>> gs, g, sens; };
struct RefRes { bool screened = false; long accepted = 0; std::vector<std::vector<double>> data, sens; };
static std::map<std::string, ObjRes> g_fresh_lm, g_fresh_pd;
static std::map<std::string, RefRes> g_ref_cache;
static const char* ACT_NAME[5] = { "", "input:same_stream_new_object", "input:other_stream", "recompute_sensitivity:off", "recompute_cache:off" };

// the streams of a stream variant: first input, the "other" input, frame [fa,fb) (fa<0: no frame definitions)
static void reuse_streams(const World& w, int sv, Stream& first, Stream& other, int& fa, int& fb)
{
  auto ev = [&](int c) { Rec r = w.cls[c]; r.kind = 'P'; return r; };
  Rec tk; tk.kind = 'T'; tk.dt = 1;
  const Rec A = ev(cA), B = w.cls[cB].kind ? ev(cB) : ev(cA), A2 = w.cls[cA2].kind ? ev(cA2) : ev(cAs);
  const Stream X0 = { A, B }, X1 = { A, tk, B, A2 }, X2 = { B, tk, A, A };
  fa = fb = -1;
  if (sv == 0) { first = X0; other = X1; }
  else { first = X1; other = X2; if (sv == 2) { fa = 1; fb = 2; } }
}

static void eval_obj(PoissonLogLikelihoodWithLinearModelForMean<Target>& p, const Target& est, int N, ObjRes& r)
{
  shared_ptr<Target> out(est.get_empty_copy());
  for (int S = 0; S < N; ++S)
    {
      p.compute_sub_gradient_without_penalty_plus_sensitivity(*out, est, S);
      r.gs.push_back(from_image(*out));
      r.sens.push_back(from_image(p.get_subset_sensitivity(S)));
      if (!r.g_rejected)
        {
          // without subset sensitivities and with several subsets STIR refuses to subtract the sensitivity (documented error)
          std::string what;
          if (small::throws([&] { p.compute_sub_gradient_without_penalty(*out, est, S); }, &what)) { r.g_rejected = true; r.g.clear(); }
          else r.g.push_back(from_image(*out));
        }
    }
  r.ok = true;
}

static void configure_fresh_lm(LMObj& obj, const World& w, const GWorld& G, const RCfg& c, const RSet& r, const Stream& s, int fa, int fb, shared_ptr<ProjDataInMemory>& addpd)
{
  shared_ptr<lmref::MemListMode> lm(new lmref::MemListMode(w.tmpl, s));
  obj.set_input_data(shared_ptr<ExamData>(lm));
  obj.set_proj_matrix(make_matrix(c.sym));
  if (c.add) { addpd = projdata_from(w, G.additive); obj.set_additive_proj_data_sptr(addpd); }
  obj.set_num_subsets(r.N);
  obj.set_use_subset_sensitivities(r.us != 0);
  obj.set_recompute_sensitivity(true);
  obj.set_cache_path(g_cache_dir);
  obj.set_cache_max_size((unsigned long)r.cache);
  obj.set_recompute_cache(true);
  obj.set_max_segment_num_to_process(r.ms);
  if (fa >= 0)
    {
      std::vector<std::pair<double, double>> fr(1, { (double)fa, (double)fb });
      obj.frame_defs = TimeFrameDefinitions(fr);
    }
}

static std::string settings_key(const World& w, const RCfg& c, const RSet& r, const Stream& s, int fa, int fb, bool with_cache)
{
  return w.t.str() + "|" + vmc::str(c.sym) + "|" + vmc::str(c.add) + "|" + lmref::stream_str(s) + "|" + vmc::str(fa) + "|" + vmc::str(fb) + "|" + vmc::str(r.N) + "." + vmc::str(r.us) + "."
         + vmc::str(r.ms) + (with_cache ? "." + vmc::str(r.cache) : std::string());
}

// a freshly built list-mode objective function with these settings (memoised: deterministic)
static const ObjRes& fresh_lm(vmc::Ctx& ctx, GWorld& G, const RCfg& c, const RSet& r, const Stream& s, int fa, int fb, const shared_ptr<Target>& est)
{
  const std::string key = settings_key(*G.w, c, r, s, fa, fb, true);
  auto it = g_fresh_lm.find(key);
  if (it != g_fresh_lm.end()) return it->second;
  ObjRes res;
  shared_ptr<LMObj> obj(new LMObj);
  shared_ptr<ProjDataInMemory> addpd;
  bool failed = false;
  if (small::throws([&] { configure_fresh_lm(*obj, *G.w, G, c, r, s, fa, fb, addpd); failed = obj->set_up(est) != Succeeded::yes; if (!failed) eval_obj(*obj, *est, r.N, res); }, &res.what) || failed)
    res.ok = false;
  ctx.count("G_reuse_fresh_objects");
  return g_fresh_lm[key] = res;
}

// the projection-data objective function on the data histogrammed by the real LmToProjData (prompts only), same model
static const ObjRes& fresh_pd(vmc::Ctx& ctx, GWorld& G, const RCfg& c, const RSet& r, const Stream& s, int fa, int fb, const shared_ptr<Target>& est)
{
  const std::string key = settings_key(*G.w, c, r, s, fa, fb, false);
  auto it = g_fresh_pd.find(key);
  if (it != g_fresh_pd.end()) return it->second;
  const World& w = *G.w;
  ObjRes res;
  int T = 1;
  for (const Rec& x : s) if (x.kind == 'T') T += x.dt;
  Mode m; m.frames = { { fa < 0 ? 0 : fa, fa < 0 ? T : fb } };
  shared_ptr<ProjDataInMemory> hist, addpd;
  bool failed = false;
  if (small::throws(
          [&] {
            run_real(w, s, m, STORES[1], w.g.nseg(), w.g.ntof(), nullptr, false, &hist);
            shared_ptr<PDObj> pobj(new PDObj);
            pobj->set_proj_data_sptr(hist);
            shared_ptr<ProjMatrixByBin> pm = make_matrix(c.sym);
            shared_ptr<ProjectorByBinPair> pp(new ProjectorByBinPairUsingProjMatrixByBin(pm));
            pobj->set_projector_pair_sptr(pp);
            if (c.add) { addpd = projdata_from(w, G.additive); pobj->set_additive_proj_data_sptr(addpd); }
            pobj->set_num_subsets(r.N);
            pobj->set_use_subset_sensitivities(r.us != 0);
            pobj->set_recompute_sensitivity(true);
            pobj->set_max_segment_num_to_process(r.ms);
            failed = pobj->set_up(est) != Succeeded::yes;
            if (!failed) eval_obj(*pobj, *est, r.N, res);
          },
          &res.what)
      || failed)
    res.ok = false;
  ctx.count("G_reuse_projdata_objectives");
  return g_fresh_pd[key] = res;
}

// explicit-matrix reference for the settings: data term per subset and the subset sensitivity the objective function must use
static const RefRes& reuse_reference(GWorld& G, const RCfg& c, const RSet& r, const Stream& s, int fa, int fb, const std::vector<double>& lambda)
{
  const std::string key = settings_key(*G.w, c, r, s, fa, fb, false);
  auto it = g_ref_cache.find(key);
  if (it != g_ref_cache.end()) return it->second;
  const World& w = *G.w;
  RefRes R;
  Select sel; sel.start = fa < 0 ? 0 : fa; sel.end = fa < 0 ? 1e30 : fb;
  std::vector<float> y = lmref::ref_histogram(w.g, s, sel, STORES[1], nullptr);
  auto in_segs = [&](size_t b) { return r.ms < 0 || std::abs(G.bins[b].segment_num()) <= r.ms; };
  const std::vector<int>& subset_of = subsets_of(G, c.sym, r.N);
  std::vector<double> ybar(w.g.nbins, 0.0);
  for (size_t b = 0; b < w.g.nbins; ++b)
    {
      if (!in_segs(b)) y[b] = 0.F; // "maximum absolute segment number to process": events of the other segments are not part of the model
      if (y[b] <= 0) continue;
      R.accepted += (long)y[b];
      double f = c.add ? G.additive[b] : 0.0;
      for (auto& e : G.rows[b]) f += e.second * lambda[e.first];
      ybar[b] = f;
      if (f > 0 && y[b] / f > 1000.0) R.screened = true;
    }
  R.data.assign(r.N, std::vector<double>(G.nvox, 0.0));
  R.sens.assign(r.N, std::vector<double>(G.nvox, 0.0));
  for (size_t b = 0; b < w.g.nbins; ++b)
    {
      if (!in_segs(b)) continue;
      const int S = subset_of[b];
      for (auto& e : G.rows_nt[b]) R.sens[S][e.first] += e.second / (w.tof ? double(w.g.ntof()) : 1.0);
      if (y[b] > 0 && ybar[b] > 0)
        for (auto& e : G.rows[b]) R.data[S][e.first] += y[b] * e.second / ybar[b];
    }
  if (!r.us && r.N > 1)
    {
      // without subset sensitivities: every subset uses total sensitivity / num_subsets
      std::vector<double> tot(G.nvox, 0.0);
      for (int S = 0; S < r.N; ++S) for (size_t j = 0; j < G.nvox; ++j) tot[j] += R.sens[S][j];
      for (int S = 0; S < r.N; ++S) for (size_t j = 0; j < G.nvox; ++j) R.sens[S][j] = tot[j] / r.N;
    }
  return g_ref_cache[key] = R;
}

static std::string changed_str(const RSet& p, const RSet& c, int maxseg)
{
  std::string s;
  auto add = [&](const std::string& x) { if (!s.empty()) s += "+"; s += x; };
  if (p.N != c.N) add("num_subsets");
  if (p.us != c.us) add("use_subset_sensitivities");
  if (p.ms != c.ms)
    {
      const int a = p.ms < 0 ? maxseg : p.ms, b = c.ms < 0 ? maxseg : c.ms;
      add(std::string("max_segment:") + (b > a ? "widen" : b < a ? "narrow" : "same_range"));
    }
  if (p.cache != c.cache) add("cache_size");
  if (c.act) add(ACT_NAME[c.act]);
  return s.empty() ? "nothing" : s;
}
// for the violation key: ONE changed dimension by a fixed priority (one defect = few keys); the complete list is in the message
static std::string primary_change(const RSet& p, const RSet& c, int maxseg)
{
  if (p.ms != c.ms)
    {
      const int a = p.ms < 0 ? maxseg : p.ms, b = c.ms < 0 ? maxseg : c.ms;
      return std::string("max_segment:") + (b > a ? "widen" : b < a ? "narrow" : "same_range");
    }
  if (c.act == 1 || c.act == 2) return ACT_NAME[c.act];
  if (p.N != c.N) return "num_subsets";
  if (p.us != c.us) return "use_subset_sensitivities";
  if (p.cache != c.cache) return "cache_size";
  if (c.act) return ACT_NAME[c.act];
  return "nothing";
}

static void check_reuse(vmc::Ctx& ctx, GWorld& G, const RCfg& c, const std::vector<RSet>& hist)
{
  const World& w = *G.w;
  std::string h;
  for (size_t i = 0; i < hist.size(); ++i) { if (i) h += "|"; h += hist[i].str(); }
  const std::string kase = "part=R;" + w.t.str() + ";sym=" + vmc::str(c.sym) + ";add=" + vmc::str(c.add) + ";sv=" + vmc::str(c.sv) + ";h=" + h;
  ctx.current("part=G;reuse", kase);
  ctx.count("G_reuse_histories");
  ctx.count("evaluations");
  Stream cur, other;
  int fa, fb;
  reuse_streams(w, c.sv, cur, other, fa, fb);
  shared_ptr<Target> est = image_pattern(G, 1);
  const std::vector<double> lambda = from_image(*est);
  bool uses_act4 = false;
  for (auto& r : hist) if (r.act == 4) uses_act4 = true;
  if (uses_act4) // "recompute cache = off" reads every my_CACHE<n>.bin that exists: start from an empty cache directory
    for (int i = 0; i < 64; ++i)
      if (::remove((g_cache_dir + "/my_CACHE" + std::to_string(i) + ".bin").c_str()) != 0) break;
  shared_ptr<LMObj> obj(new LMObj);
  shared_ptr<ProjDataInMemory> addpd;
  bool resens_off = false, recache_off = false;
  const RefRes* prev_ref = nullptr;
  for (size_t k = 0; k < hist.size(); ++k)
    {
      const RSet& r = hist[k];
      const std::string stage = vmc::str(k + 1);
      const std::string changed = k == 0 ? std::string("fresh") : changed_str(hist[k - 1], r, w.g.max_seg);
      const std::string keytail = ";set_up=" + stage + ";changed=" + (k == 0 ? std::string("fresh") : primary_change(hist[k - 1], r, w.g.max_seg)) + ";build=" + BUILD + ";tof=" + (w.tof ? "1" : "0");
      std::string what;
      bool failed = false;
      long setters = 0;
      if (small::throws(
              [&] {
                if (k == 0) { configure_fresh_lm(*obj, w, G, c, r, cur, fa, fb, addpd); setters = 8; }
                else
                  {
                    const RSet& p = hist[k - 1];
                    if (r.act == 1 || r.act == 2)
                      {
                        if (r.act == 2) std::swap(cur, other);
                        shared_ptr<lmref::MemListMode> lm(new lmref::MemListMode(w.tmpl, cur));
                        obj->set_input_data(shared_ptr<ExamData>(lm)); ++setters;
                      }
                    if (p.N != r.N) { obj->set_num_subsets(r.N); ++setters; }
                    if (p.us != r.us) { obj->set_use_subset_sensitivities(r.us != 0); ++setters; }
                    if (p.ms != r.ms) { obj->set_max_segment_num_to_process(r.ms); ++setters; }
                    if (p.cache != r.cache) { obj->set_cache_max_size((unsigned long)r.cache); ++setters; }
                    if (r.act == 3) { obj->set_recompute_sensitivity(false); resens_off = true; ++setters; }
                    else if (resens_off) { obj->set_recompute_sensitivity(true); resens_off = false; ++setters; }
                    if (r.act == 4) { obj->set_recompute_cache(false); recache_off = true; ++setters; }
                    else if (recache_off) { obj->set_recompute_cache(true); recache_off = false; ++setters; }
                  }
                failed = obj->set_up(est) != Succeeded::yes;
              },
              &what)
          || failed)
        {
          ctx.count("G_reuse_set_up_rejected");
          const ObjRes& fr = fresh_lm(ctx, G, c, r, cur, fa, fb, est);
          if (k > 0 && fr.ok)
            {
              ctx.count("G_reuse_rejected_but_fresh_accepts");
              ctx.observe("re-used list-mode objective function: set_up " + stage + " after changing " + changed + " is rejected (" + what.substr(0, 120)
                          + ") although a fresh object with the same settings is accepted");
            }
          return; // the object's state is undefined after a failed set_up
        }
      ctx.count("states");
      ctx.count("G_reuse_set_ups");
      ctx.count("transitions", setters);
      const RefRes& ref = reuse_reference(G, c, r, cur, fa, fb, lambda);
      if (ref.screened) { ctx.count("G_screened_near_truncation"); return; }
      ObjRes res;
      ctx.count("traces_validated_against_impl", 2 * r.N);
      if (small::throws([&] { eval_obj(*obj, *est, r.N, res); }, &what))
        {
          ctx.violation("part=G;reuse=1;clause=exception" + keytail, kase, "sub-gradient of the re-used objective function threw after set_up " + stage + ": " + what.substr(0, 300));
          return;
        }
      bool ok = true;
      auto compare = [&](const std::string& clause, int S, const std::vector<double>& impl, const std::vector<double>& rf, const std::vector<double>& Tsum, const char* against) {
        if (!ok) return;
        double worst = 0; int at = -1;
        for (size_t j = 0; j < rf.size(); ++j)
          {
            const double tol = (64 * EPSF + 2e-6) * Tsum[j] + 1e-30;
            const double q = std::fabs(impl[j] - rf[j]) / tol;
            if (!(q <= worst)) { worst = q; at = (int)j; }
          }
        if (worst > 1.0)
          {
            ok = false;
            ctx.violation("part=G;reuse=1;clause=" + clause + keytail, kase,
                          clause + " after set_up " + stage + " (changed: " + changed + "; settings num_subsets." + "use_subset_sens.max_segment.cache.action = " + r.str() + ") subset " + vmc::str(S) + " voxel "
                              + vmc::str(at) + ": re-used list-mode objective " + vmc::str(impl[at]) + ", " + against + " " + vmc::str(rf[at]) + " (tolerance "
                              + vmc::str((64 * EPSF + 2e-6) * Tsum[at]) + "; prompts in model " + vmc::str(ref.accepted) + ")");
          }
      };
      auto sumabs = [&](const std::vector<double>& a, const std::vector<double>& b) { std::vector<double> t(a.size()); for (size_t j = 0; j < a.size(); ++j) t[j] = std::fabs(a[j]) + std::fabs(b[j]); return t; };
      // (a) explicit reference
      for (int S = 0; S < r.N && ok; ++S)
        {
          compare("data_term", S, res.gs[S], ref.data[S], ref.data[S], "reference");
          if (!w.tof)
            {
              if (r.us || r.N == 1) compare("sensitivity", S, res.sens[S], ref.sens[S], ref.sens[S], "reference");
              else
                {
                  // use_subset_sensitivities=false with several subsets: STIR refuses to compute the gradient (error), so the value of the subset
                  // sensitivity is outside the statement; recorded only (add_subset_sensitivity overwrites instead of accumulating: last subset / N)
                  bool differs = false;
                  for (size_t j = 0; j < G.nvox; ++j) if (std::fabs(res.sens[S][j] - ref.sens[S][j]) > 1e-4 * ref.sens[S][j] + 1e-30) differs = true;
                  if (differs)
                    {
                      ctx.count("G_reuse_nosubsetsens_sensitivity_not_total_over_N");
                      ctx.observe("list-mode objective function with use_subset_sensitivities=false and num_subsets>1: get_subset_sensitivity() is not (total sensitivity)/num_subsets "
                                  "(add_subset_sensitivity() overwrites its argument, so only the last subset is kept); not a violation of the statement because the gradient is refused in this configuration");
                    }
                }
              if (!res.g_rejected)
                {
                  std::vector<double> rg(G.nvox), Ts(G.nvox);
                  for (size_t j = 0; j < G.nvox; ++j) { rg[j] = ref.data[S][j] - ref.sens[S][j]; Ts[j] = ref.data[S][j] + ref.sens[S][j]; }
                  compare("gradient", S, res.g[S], rg, Ts, "reference");
                }
            }
          else if (!res.g_rejected)
            {
              std::vector<double> r2(G.nvox);
              for (size_t j = 0; j < G.nvox; ++j) r2[j] = res.gs[S][j] - res.sens[S][j];
              compare("gradient_vs_own_sensitivity", S, res.g[S], r2, sumabs(res.gs[S], res.sens[S]), "data term - own sensitivity");
            }
        }
      // (b) a fresh object with the same final settings
      if (ok)
        {
          const ObjRes& fr = fresh_lm(ctx, G, c, r, cur, fa, fb, est);
          if (!fr.ok) ctx.count("G_reuse_accepted_but_fresh_rejects");
          else
            {
              ctx.count("G_reuse_fresh_comparisons");
              for (int S = 0; S < r.N && ok; ++S)
                {
                  compare("data_term_vs_fresh_object", S, res.gs[S], fr.gs[S], sumabs(res.gs[S], fr.gs[S]), "fresh object");
                  compare("sensitivity_vs_fresh_object", S, res.sens[S], fr.sens[S], sumabs(res.sens[S], fr.sens[S]), "fresh object");
                  if (!res.g_rejected && !fr.g_rejected) compare("gradient_vs_fresh_object", S, res.g[S], fr.g[S], sumabs(res.gs[S], res.sens[S]), "fresh object");
                }
            }
        }
      // (c) the statement literally: projection-data objective function of the histogrammed data, same model
      if (ok)
        {
          const ObjRes& pd = fresh_pd(ctx, G, c, r, cur, fa, fb, est);
          if (!pd.ok) ctx.count("projdata_objective_rejected");
          else
            {
              ctx.count("G_projdata_comparisons");
              for (int S = 0; S < r.N && ok; ++S)
                {
                  compare("data_term_vs_projdata_objective", S, res.gs[S], pd.gs[S], sumabs(res.gs[S], pd.gs[S]), "projection-data objective");
                  if (!w.tof && !res.g_rejected && !pd.g_rejected)
                    compare("gradient_vs_projdata_objective", S, res.g[S], pd.g[S], sumabs(res.gs[S], res.sens[S]), "projection-data objective");
                }
            }
        }
      if (!ok) return;
      if (k > 0)
        {
          if (prev_ref && (prev_ref->data != ref.data || prev_ref->sens != ref.sens)) { ctx.count("G_reuse_set_ups_that_must_change_the_result"); if (ref.accepted > 0) ctx.nontrivial(kase + "#" + stage); }
          else ctx.count("G_reuse_set_ups_that_must_keep_the_result");
        }
      prev_ref = &ref;
    }
}

static std::vector<RSet> parse_hist(const std::string& h)
{
  std::vector<RSet> v;
  for (auto& p : vmc::split(h, '|'))
    {
      std::vector<int> x = vmc::ints(p, '.');
      x.resize(5, 0);
      RSet r; r.N = x[0]; r.us = x[1]; r.ms = x[2]; r.cache = x[3]; r.act = x[4];
      v.push_back(r);
    }
  return v;
}

// ------------------------------------------------------------------------------------------------ enumeration
struct HTask { Tmpl t; int alpha; int depth; };
struct GTask { Tmpl t; int depth; };

static Tmpl T_(int D, int R, int ntof, int span, int maxd, int vm = 1, int tm = 1, int tang = 0, int segred = -1, int axtrim = 0)
{
  Tmpl t; t.D = D; t.R = R; t.ntof = ntof; t.span = span; t.maxd = maxd; t.vm = vm; t.tm = tm; t.tang = tang; t.segred = segred; t.axtrim = axtrim;
  return t;
}

// enumerate all streams over alphabet `a` with the given first symbols `prefix` and total length <= depth (prefix itself included)
template <class F> static void for_streams(const std::vector<Rec>& a, const std::vector<int>& prefix, int depth, F f)
{
  Stream base;
  for (int i : prefix) base.push_back(a[i]);
  f(base);
  const int extra = depth - (int)prefix.size();
  for (int len = 1; len <= extra; ++len)
    {
      vmc::Odometer od(std::vector<int>(len, (int)a.size()));
      for (; !od.done; od.next())
        {
          Stream s = base;
          for (int i = 0; i < len; ++i) s.push_back(a[od[i]]);
          f(s);
        }
    }
}

struct NullBuf : public std::streambuf
{
  int overflow(int c) override { return c; }
  std::streamsize xsputn(const char*, std::streamsize n) override { return n; }
};

static void replay_case(vmc::Ctx& ctx)
{
  auto m = vmc::kv(ctx.replay);
  Tmpl t = Tmpl::parse(m);
  Stream s = lmref::parse_stream(m["s"]);
  if (m["part"] == "HR")
    {
      auto w = world(t);
      std::vector<HRun> runs;
      for (auto& p : vmc::split(m["runs"], '~')) runs.push_back(HRun::parse(p));
      check_h_reuse(ctx, *w, lmref::parse_stream(m["s"]), lmref::parse_stream(m["s2"]), runs);
      return;
    }
  if (m["part"] == "R")
    {
      auto G = gworld(t);
      RCfg c; c.sym = atoi(m["sym"].c_str()); c.add = atoi(m["add"].c_str()); c.sv = atoi(m["sv"].c_str());
      check_reuse(ctx, *G, c, parse_hist(m["h"]));
      return;
    }
  if (m["part"] == "G")
    {
      auto G = gworld(t);
      GCfg c = GCfg::parse(m);
      check_gradient(ctx, *G, s, c, true);
      return;
    }
  auto w = world(t);
  if (!m.count("mode")) { check_stream(ctx, *w, s, s.size() > 40, s.size() > 40); return; }
  Mode mode = Mode::parse(m["mode"]);
  const int store = atoi(m["store"].c_str()), ms = atoi(m["ms"].c_str()), mt = atoi(m["mt"].c_str());
  std::vector<float> whole;
  if (mode.n == 0 && mode.frames.size() > 1)
    {
      Mode wm; wm.frames = { { mode.frames.front().first, mode.frames.back().second } };
      check_mode(ctx, *w, s, wm, store, ms, mt, &whole);
    }
  check_mode(ctx, *w, s, mode, store, ms, mt, &whole);
}

int main(int argc, char** argv)
{
  vmc::Ctx ctx(argc, argv, "C14");
  small::quiet();
  static NullBuf nullbuf;
  std::cerr.rdbuf(&nullbuf); // LmToProjData::process_data reports progress on cerr/cout for every pass
  std::cout.rdbuf(&nullbuf);
  g_cache_dir = ctx.tmpdir + "/lmcache_" + std::to_string(ctx.shard) + "_" + std::to_string((long)getpid());
  ::mkdir(g_cache_dir.c_str(), 0755);
  ctx.rule = "state = (template geometry, event stream, selection [frames | num_events_to_store], store flags, num_segments_in_memory, num_TOF_bins_in_memory); "
             "every state is one execution of the real LmToProjData on fresh objects compared bin by bin with the reference histogram; transitions = records "
             "delivered by the in-memory list-mode driver; streams = ALL words over the event alphabet up to the length bound (+ the every-detector-pair-once streams); "
             "part G: one case = (geometry, stream, frame, subsets, symmetries, additive, cache size), non-trivial = events present and num_subsets > 1; "
             "RE-USED objects: one history = the same list-mode objective function set up 2 (thorough: 3) times / the same LmToProjData run 2 (3) times, ALL (before, after) "
             "tuples of the settings alphabet x the action in between (changed setters, set_input_data same/other stream, recompute flags off, input rewound); every "
             "set_up/run is a state compared with the reference for the CURRENT settings, a fresh object and the projection-data objective; transitions = setter calls "
             "(+ records delivered); non-trivial = the reference result of the later set_up/run differs from the earlier one and events are present";
  ctx.assume("event time = time of the last preceding time mark (0 before the first); a frame is [start,end): this is what ListModeData's documentation and "
             "LmToProjData define; ticks at whole seconds, frame boundaries at whole seconds (no floating-point ties)");
  ctx.assume("bin of an event = ProjDataInfoCylindricalNoArcCorr::get_bin_for_det_pos_pair of the TEMPLATE geometry (C01's subject, trusted here), accepted iff inside the "
             "template's segment/axial/tangential/TOF/view ranges");
  ctx.assume("histogram comparison is exact (small integers in float); events with det1==det2 are not generated (assert-only precondition of get_bin)");
  ctx.assume("num_events_to_store = N: the first events until stored prompts minus stored delayeds reaches N (LmToProjData.h: 'normally counts the total of prompts-delayeds')");
  ctx.assume("num_segments_in_memory / num_TOF_bins_in_memory >= 1 only (0 makes LmToProjData loop forever: set_up tests num_segments, not num_segments_in_memory)");
  ctx.assume("gradient tolerance: |impl-ref| <= (64*eps_float + 2e-6)*sum|terms| per voxel, reference in double on the explicit ray-tracing matrix (all symmetries off); "
             "cases with y/ybar > 1000 for some bin are screened from the inputs (truncation at 10000)");
  ctx.assume("TOF list-mode objective: sensitivity is computed without TOF by design (use_tofsens=false), so only the data term is compared with the reference for TOF");
  ctx.assume("re-used objects: only the setters whose value changes are called between set_ups/runs; 'recompute sensitivity/cache = off' is only requested when nothing they depend on "
             "changed (otherwise stale data is what the user asked for); a set_up that is rejected with an error where a fresh object is accepted is recorded, not a violation; "
             "the subset sensitivity for use_subset_sensitivities=false with num_subsets>1 is not compared with the reference (STIR refuses the gradient there); whether "
             "LmToProjData::process_data rewinds its input is undocumented: the harness rewinds it (reset() or set_input_data) before every further run; when switching to "
             "num_events_to_store>0 the old frame definitions are also removed");
  ctx.assume("per-frame outputs of a multi-frame process_data call with in-memory output are read in the documented start_new_time_frame hook");
  if (ctx.replaying()) { replay_case(ctx); return ctx.finish(); }

  const bool th = ctx.thorough();
  std::string only; // testing aid: "--only H" / "--only G"
  for (size_t i = 0; i + 1 < ctx.extra_args.size(); ++i) if (ctx.extra_args[i] == "--only") only = ctx.extra_args[i + 1];
  // ---- templates
  const Tmpl tNT = T_(8, 2, 0, 1, 1);                 // 3 segments, non-TOF
  const Tmpl tTOF = T_(8, 2, 3, 1, 1);                // 3 segments x 3 TOF bins
  const Tmpl tSPAN = T_(8, 3, 0, 3, 1);               // span 3: ring differences -1..1 in one segment, +-2 rejected
  const Tmpl tVM = T_(8, 2, 0, 1, 1, 2);              // view mashing 2
  const Tmpl tTM = T_(8, 2, 9, 1, 1, 1, 3);           // 9 TOF indices mashed by 3
  const Tmpl tTANG = T_(8, 2, 0, 1, 1, 1, 1, 3);      // tangential range truncated to 3 of 4
  const Tmpl tSEGRED = T_(8, 3, 0, 1, 2, 1, 1, 0, 1); // 5 segments reduced to 3
  const Tmpl tSEG0 = T_(8, 2, 0, 1, 0);               // only segment 0
  const Tmpl tAX = T_(8, 3, 0, 1, 2, 1, 1, 0, -1, 1); // 5 segments, axial positions trimmed
  const Tmpl tTOF5 = T_(12, 2, 5, 1, 1, 1, 1, 5);     // 5 TOF bins, tangential 5 of 6
  const Tmpl tMIX = T_(8, 3, 9, 3, 1, 2, 3, 3);       // span 3 + view mashing 2 + TOF mashing 3 + tangential 3
  const Tmpl tSPAN5 = T_(8, 5, 0, 3, 4);              // span 3 with 3 segments
  std::vector<HTask> htasks;
  const std::vector<Tmpl> all = { tNT, tTOF, tSPAN, tVM, tTM, tTANG, tSEGRED, tSEG0, tAX, tTOF5, tMIX, tSPAN5 };
  for (const Tmpl& t : all) htasks.push_back({ t, 1, 2 });
  if (!th)
    {
      htasks.push_back({ tTOF, 0, 5 });
      htasks.push_back({ tSEGRED, 0, 4 });
      htasks.push_back({ tMIX, 1, 3 });
    }
  else
    {
      htasks.push_back({ tTOF, 0, 6 });
      htasks.push_back({ tSEG0, 0, 7 });
      htasks.push_back({ tNT, 0, 6 });
      htasks.push_back({ tSEGRED, 0, 5 });
      htasks.push_back({ tTM, 0, 5 });
      htasks.push_back({ tAX, 0, 5 });
      htasks.push_back({ tMIX, 1, 3 });
      htasks.push_back({ tTOF, 1, 3 });
      htasks.push_back({ tSPAN5, 1, 3 });
    }
  if (only == "G" || only == "R" || only == "HR") htasks.clear();
  std::vector<GTask> gtasks;
  gtasks.push_back({ tNT, th ? 3 : 2 });
  gtasks.push_back({ tTOF, th ? 3 : 2 });
  gtasks.push_back({ tSPAN, th ? 2 : 1 });
  gtasks.push_back({ tVM, th ? 2 : 1 });
  if (th) gtasks.push_back({ tTM, 2 });
  if (only == "H" || only == "R" || only == "HR") gtasks.clear();

  uint64_t unit = 0;
  // work unit = (task, first PL symbols of the stream)
  // ---- part H: all streams
  for (const HTask& task : htasks)
    {
      shared_ptr<World> w;
      std::vector<Rec> a;
      // number of symbols is needed to number the units identically in every shard: build the world (cheap) in every shard
      w = world(task.t);
      std::vector<std::string> names;
      a = alphabet(*w, task.alpha, &names);
      if (ctx.shard == 0)
        {
          std::string al; for (auto& n : names) al += n + " ";
          ctx.sample("template " + task.t.str() + ": " + vmc::str(w->g.nbins) + " bins, " + vmc::str(w->g.nseg()) + " segments x " + vmc::str(w->g.ntof()) + " TOF bins; bins with >=2 detector pairs: "
                         + vmc::str(w->bins_with_2_pairs) + "; events accepted/ring/tang/axial/TOF: " + vmc::str(w->reject_count[0]) + "/" + vmc::str(w->reject_count[1]) + "/"
                         + vmc::str(w->reject_count[2]) + "/" + vmc::str(w->reject_count[3]) + "/" + vmc::str(w->reject_count[4]) + "; " + (task.alpha ? "wide" : "narrow") + " alphabet: " + al,
                     40);
        }
      const int na = (int)a.size();
      // prefixes of length 0..PL (PL = 3 for the deep tasks: finer work units)
      const int PL = std::min(task.depth, task.depth >= 6 ? 3 : 2);
      std::vector<std::vector<int>> prefixes;
      prefixes.push_back({});
      for (size_t at = 0; at < prefixes.size(); ++at)
        {
          if ((int)prefixes[at].size() >= PL) continue;
          for (int i = 0; i < na; ++i) { std::vector<int> q = prefixes[at]; q.push_back(i); prefixes.push_back(q); }
        }
      for (auto& p : prefixes)
        {
          const bool leaf = (int)p.size() == PL;
          if (!ctx.mine(unit++)) continue;
          if (ctx.expired()) return ctx.finish();
          if (!leaf)
            {
              Stream s; for (int i : p) s.push_back(a[i]);
              check_stream(ctx, *w, s);
            }
          else
            for_streams(a, p, task.depth, [&](const Stream& s) { check_stream(ctx, *w, s); });
          ctx.maxi(std::string("H_depth_") + (task.alpha ? "wide" : "narrow"), task.depth);
        }
    }
  // ---- part H: every detector pair once
  for (const Tmpl& t : all)
    for (int variant = 0; variant < 2; ++variant)
      {
        if (only == "G" || only == "R" || only == "HR") continue;
        if (!ctx.mine(unit++)) continue;
        if (ctx.expired()) return ctx.finish();
        auto w = world(t);
        const Stream s = all_pairs_stream(*w, variant);
        check_stream(ctx, *w, s, true, true);
        ctx.count("all_pairs_streams");
        ctx.count("bins_with_2_pairs", w->bins_with_2_pairs);
      }
  // ---- part H, re-used LmToProjData objects: ALL (before, after) pairs of settings x how the input is rewound; thorough: + ALL triples over a reduced alphabet
  if (only.empty() || only == "H" || only == "HR")
    {
      struct HRTask { Tmpl t; int depth; bool fixed_streams; bool triples; };
      std::vector<HRTask> hr;
      if (!th) { hr.push_back({ tTOF, 1, true, false }); hr.push_back({ tNT, 1, true, false }); }
      else
        {
          for (const Tmpl& t : { tTOF, tNT, tSEGRED, tMIX }) hr.push_back({ t, 2, true, false });
          hr.push_back({ tTOF, -1, true, true });
          hr.push_back({ tNT, -1, true, true });
        }
      for (const HRTask& task : hr)
        {
          auto w = world(task.t);
          const std::vector<Rec> a = alphabet(*w, 0);
          auto sym = [&](char kind, int c) { Rec r = w->cls[c].kind ? w->cls[c] : w->cls[cA]; r.kind = kind; return r; };
          Rec tk; tk.kind = 'T'; tk.dt = 1;
          const Stream F0 = { sym('P', cA), sym('D', cA), tk, sym('P', cB), sym('P', cA) };
          const Stream F1 = { sym('P', cB), tk, sym('D', cB), sym('P', cA), tk, sym('P', cB) };
          std::vector<std::pair<Stream, Stream>> streams;
          if (task.depth >= 0) for_streams(a, {}, task.depth, [&](const Stream& s) { streams.push_back({ s, F0 }); }); // simplest first
          if (task.fixed_streams) { streams.push_back({ F0, F1 }); streams.push_back({ F1, F0 }); }
          for (auto& sp : streams)
            {
              const std::vector<HRun> sigma = h_reuse_settings(*w, sp.first, task.triples), sigma_other = h_reuse_settings(*w, sp.second, task.triples);
              for (const HRun& r1 : sigma)
                {
                  if (!ctx.mine(unit++)) continue;
                  if (ctx.expired()) return ctx.finish();
                  for (int in2 : { 0, 1, 2 })
                    for (const HRun& s2 : (in2 == 2 ? sigma_other : sigma))
                      {
                        HRun r2 = s2; r2.input = in2;
                        if (!task.triples) { check_h_reuse(ctx, *w, sp.first, sp.second, { r1, r2 }); continue; }
                        if (in2 == 1) continue;
                        for (int in3 : { 0, 2 })
                          for (const HRun& s3 : ((in2 == 2) != (in3 == 2) ? sigma_other : sigma))
                            {
                              HRun r3 = s3; r3.input = in3;
                              check_h_reuse(ctx, *w, sp.first, sp.second, { r1, r2, r3 });
                            }
                      }
                  ctx.maxi("H_reuse_runs_per_object", task.triples ? 3 : 2);
                  ctx.maxi("H_reuse_settings_alphabet", (long long)sigma.size());
                }
            }
        }
    }
  // ---- part G
  for (const GTask& task : gtasks)
    {
      auto w = world(task.t);
      // alphabet: tick, P(A), P(A2|As), P(B), D(A), P(X)
      std::vector<Rec> a;
      { Rec tk; tk.kind = 'T'; tk.dt = 1; a.push_back(tk); }
      auto addc = [&](int c, char k) { if (w->cls[c].kind) { Rec r = w->cls[c]; r.kind = k; a.push_back(r); return true; } return false; };
      addc(cA, 'P');
      if (!addc(cA2, 'P')) addc(cAs, 'P');
      addc(cB, 'P');
      addc(cA, 'D');
      for (int c : { cXring, cXtang, cXtof, cXax }) if (addc(c, 'P')) break;
      const int nviews = w->g.nviews();
      std::vector<int> Ns = { 1, 2 };
      if (nviews % 4 == 0) Ns.push_back(4);
      for (int N : Ns)
        for (int sym = 0; sym < 2; ++sym)
          for (int add = 0; add < 2; ++add)
            for (int cache : { 0, 1, 2, 1000 })
              {
                if (!ctx.mine(unit++)) continue;
                if (ctx.expired()) return ctx.finish();
                auto G = gworld(task.t);
                for_streams(a, {}, task.depth, [&](const Stream& s) {
                  int T = 1; for (const Rec& r : s) if (r.kind == 'T') T += r.dt;
                  GCfg c; c.N = N; c.sym = sym; c.add = add; c.cache = cache; c.img = (int)(s.size() % 2);
                  c.fa = -1; c.fb = -1;
                  check_gradient(ctx, *G, s, c, cache == 0);
                  if (T > 1)
                    for (int fa = 0; fa < T; ++fa)
                      for (int fb = fa + 1; fb <= T; ++fb)
                        { c.fa = fa; c.fb = fb; check_gradient(ctx, *G, s, c, cache == 0 && fa == 0 && fb == T); }
                });
                ctx.maxi("G_depth", task.depth);
              }
    }
  // ---- part G, re-used objective functions: ALL (before, after) pairs of settings x the action in between; thorough: + ALL triples over the quick alphabet
  if (only.empty() || only == "G" || only == "R")
    {
      struct RTask { Tmpl t; RCfg c; bool triples; };
      std::vector<RTask> rtasks;
      auto addr = [&](const Tmpl& t, int sym, int add, int sv, bool triples) { RTask k; k.t = t; k.c.sym = sym; k.c.add = add; k.c.sv = sv; k.triples = triples; rtasks.push_back(k); };
      if (!th)
        {
          addr(tNT, 1, 1, 2, false);
          addr(tTOF, 0, 0, 1, false);
        }
      else
        {
          for (int sa = 0; sa < 2; ++sa) for (int sv : { 0, 2 }) addr(tNT, sa, sa, sv, false);
          addr(tTOF, 1, 1, 1, false);
          addr(tTOF, 0, 0, 2, false);
          addr(tVM, 1, 1, 1, false);
          addr(tNT, 0, 0, 0, true);
          addr(tNT, 1, 1, 2, true);
        }
      for (const RTask& task : rtasks)
        {
          auto w = world(task.t);
          const bool small_alphabet = !th || task.triples;
          std::vector<RSet> sigma;
          for (int N : { 1, 2, 4 })
            for (int us : { 1, 0 })
              for (int ms : { -1, 0, 1 })
                for (int cache : { 0, 1, 2, 1000 })
                  {
                    if (N == 4 && (small_alphabet || w->g.nviews() % 4 != 0)) continue;
                    if (cache > 1 && small_alphabet) continue;
                    if (task.triples && !us) continue; // triples: subset sensitivities always on
                    if (ms > w->g.max_seg) continue;
                    RSet r; r.N = N; r.us = us; r.ms = ms; r.cache = cache;
                    sigma.push_back(r);
                  }
          for (const RSet& s1 : sigma)
            {
              if (!ctx.mine(unit++)) continue;
              if (ctx.expired()) return ctx.finish();
              auto G = gworld(task.t);
              auto extra_acts = [](const RSet& p, const RSet& r, bool all_same_so_far) {
                std::vector<int> a = { 0, 1, 2 };
                // "do not recompute" requests are only meaningful when what they depend on is unchanged (otherwise the user asked for stale data)
                if (p.us == r.us && p.ms == r.ms && p.cache == r.cache) a.push_back(3);
                if (all_same_so_far && p.same_settings(r) && r.cache > 0) a.push_back(4);
                return a;
              };
              for (const RSet& s2 : sigma)
                for (int a2 : extra_acts(s1, s2, true))
                  {
                    RSet r2 = s2; r2.act = a2;
                    if (!task.triples) { check_reuse(ctx, *G, task.c, { s1, r2 }); continue; }
                    if (a2 == 1 || a2 == 3) continue;
                    for (const RSet& s3 : sigma)
                      for (int a3 : extra_acts(s2, s3, s1.same_settings(s2) && a2 != 2))
                        {
                          if (a3 == 1 || a3 == 3) continue;
                          RSet r3 = s3; r3.act = a3;
                          check_reuse(ctx, *G, task.c, { s1, r2, r3 });
                        }
                  }
              ctx.maxi("G_reuse_set_ups_per_object", task.triples ? 3 : 2);
              ctx.maxi("G_reuse_settings_alphabet", (long long)sigma.size());
            }
          // memoised fresh results are per template/configuration: drop them between tasks to bound memory
          g_fresh_lm.clear(); g_fresh_pd.clear(); g_ref_cache.clear();
        }
    }
  return ctx.finish();
}
