// C08 - OSSPS sub-iterations follow the preconditioned relaxed update within bounds, and are restartable.
//
// World: small cylindrical scanners with an explicit geometric system matrix G (ray tracing, extracted bin by bin with the symmetry
// setting of the configuration; z clipped as the projectors do), efficiencies 1/n_b, additive term a_b:  ybar_b = ((G lambda)_b + a_b) / n_b  (ref_recon.h, shared with C07).
// The reconstruction itself runs the REAL OSSPSReconstruction::set_up() + reconstruct() loop with the real
// PoissonLogLikelihoodWithLinearModelForMeanAndProjData (default: all symmetries + cache) and the real QuadraticPrior; a derived class
// only copies the estimate after every end_of_iteration_processing().
//
// Per configuration (geometry x num_subsets x additive x normalisation x prior x alpha x gamma x upper bound x precomputed denominator x
// start image x data x enforce_initial_positivity x use_subset_sensitivities x start_subset x projector symmetries x inter-iteration filter):
//   history  : uninterrupted run U of K = 3*num_subsets sub-iterations; for EVERY k in 1..K-1 a FRESH objective function +
//              reconstruction object (fresh set_up) started with start_subiteration_num = k+1 from the image after sub-iteration k
//              (in memory; "files" mode: through the Interfile files that end_of_iteration_processing saves), run to K.
//              'precomputed denominator' of the resumed run: recomputed / "1" / the file <prefix>_precomputed_denominator that the
//              uninterrupted run saved.
//   denominator (after set_up): D_data_j = sum_b G_bj min( (G 1)_b / (n_b^2 y_b), 10000 )   ( = -(approximate Hessian) 1, data plug-in,
//              quotient truncated as documented in divide_and_truncate), or 1;   after the run it must be strictly positive.
//   per step : (no filter) U_k == clamp( l + zeta N grad_S Phi(l) / D, 0, upper bound ) on explicit G in double, with
//                 grad_S Phi(l)_j = sum_{b in S} G_bj ( min(y_b/((G l)_b + a_b), 10000) - 1/n_b )  -  grad R(l)_j / N
//                 D = max( D_data + 2 curvature_R , 1e-5 * smallest positive element )          (documented floor)
//                 zeta = alpha / (1 + gamma n),  n = floor(k/N) or floor((k-1)/N), the same choice at every step of the run
//                 l = image before the step (first step: voxels that no LOR sees set to 0, fill_nonidentifiable_target_parameters)
//              0 <= U_k <= upper bound and finite after every sub-iteration (all configurations).
//   restart  : all images of the resumed run == those of the uninterrupted run (bitwise; see assumptions for the one weakening).
//   re-use   : histories of 2 (thorough: 3) runs on ONE reconstruction + objective function (+ prior) object, with and without setter calls between the runs, all pairs of
//              run settings over a small alphabet; every run satisfies 'denominator' and 'per step' for its own settings and equals freshly built objects (see run_reuse).
#include "vmc.h"
#include "stir_small.h"
#include "ref_recon.h"
#include "stir/OSSPS/OSSPSReconstruction.h"
#include "stir/recon_buildblock/PriorWithParabolicSurrogate.h"

using namespace stir;
using namespace rr;

static const Geom GEOMS[] = {
  { 8, 1, 1, 0, 1, 5 },   // 2D: 4 views x 4 tangential positions, image 1x5x5 (corner voxels seen by no LOR)
  { 8, 1, 1, 0, 1, 3 },   // same scanner, image 1x3x3 (every voxel identifiable)
  { 12, 2, 1, 1, 3, 7 },  // 3 segments, 6 views, image 3x7x7
  { 12, 2, 1, 1, 3, 3 },  // same scanner, image 3x3x3 (every voxel identifiable)
  { 16, 2, 3, 1, 3, 9 },  // span 3 (thorough)
  { 12, 3, 1, 2, 5, 5 },  // 5 segments (thorough)
};
static const int NGEOMS = 6;
// One world per (geometry, sym): the explicit matrix G is extracted from the matrix exactly as the reconstruction configures it
// (rr::make_world(geom, sym): sym=1 STIR's defaults, all symmetries + cache; sym=0 everything off).  For LORs whose end points lie
// exactly on a voxel boundary (geometry 2, view 4, tang 0) rows derived through symmetries differ from direct rows by the end piece -
// a rounding tie that is C03's subject, not this property's.
static std::map<std::pair<int, int>, shared_ptr<World>> g_worlds;
static World& world(int gi, int sym)
{
  const auto key = std::make_pair(gi, sym ? 1 : 0);
  auto it = g_worlds.find(key);
  if (it == g_worlds.end()) it = g_worlds.emplace(key, make_world(GEOMS[gi], key.second)).first;
  return *it->second;
}

// A quadratic prior that declares its surrogate curvature image-dependent: drives OSSPS through its
// "recompute_penalty_term_in_denominator" branch (the curvature itself is of course still the quadratic one).
struct QuadraticRecompute : public QuadraticPrior<float>
{
  QuadraticRecompute(bool only2D, float beta) : QuadraticPrior<float>(only2D, beta) {}
  bool parabolic_surrogate_curvature_depends_on_argument() const override { return true; }
};

struct Cfg
{
  int g = 0, N = 1, add = 0, norm = 0;
  int prior = 0; // 0 none, 1 quadratic beta=.1, 2 quadratic beta=10, 3 RDP (not a parabolic-surrogate prior: must be rejected), 4 quadratic beta=.5 + kappa, 5 quadratic beta=1 "recompute"
  int al = 0;    // alpha: 0 -> 1, 1 -> 0.5
  int ga = 1;    // gamma: 0 -> 0, 1 -> 0.1 (STIR's default), 2 -> 1
  int ub = 0;    // upper bound: 0 default (max float), 1 -> 2.5
  int den = 0;   // precomputed denominator: 0 computed, 1 "1", 2 computed; resumed runs read the file the uninterrupted run saved
  int start = 0, data = 0, pos = 0, uss = 1, ss = 0, sym = 1, files = 0, iif = 0;
};
static const int NKEYS = 17;
static const char* CFG_KEYS[NKEYS] = { "g", "N", "add", "norm", "prior", "al", "ga", "ub", "den", "start", "data", "pos", "uss", "ss", "sym", "files", "iif" };
static int* cfg_field(Cfg& c, int i)
{
  int* f[NKEYS] = { &c.g, &c.N, &c.add, &c.norm, &c.prior, &c.al, &c.ga, &c.ub, &c.den, &c.start, &c.data, &c.pos, &c.uss, &c.ss, &c.sym, &c.files, &c.iif };
  return f[i];
}
static std::string cfg_str(const Cfg& c)
{
  std::string s; Cfg cc = c;
  for (int i = 0; i < NKEYS; ++i) s += (i ? ";" : "") + std::string(CFG_KEYS[i]) + "=" + vmc::str(*cfg_field(cc, i));
  return s;
}
static Cfg cfg_parse(const std::string& str)
{
  Cfg c; auto m = vmc::kv(str);
  for (int i = 0; i < NKEYS; ++i) if (m.count(CFG_KEYS[i])) *cfg_field(c, i) = atoi(m[CFG_KEYS[i]].c_str());
  return c;
}
static float alpha_of(const Cfg& c) { return c.al ? 0.5F : 1.F; }
static float gamma_of(const Cfg& c) { return c.ga == 0 ? 0.F : c.ga == 1 ? 0.1F : 1.F; }
static double ubound_of(const Cfg& c) { return c.ub ? 2.5 : (double)std::numeric_limits<float>::max(); }
static const char* prior_name(int p) { return p == 0 ? "none" : p == 3 ? "RDP" : p == 4 ? "quadratic_kappa" : p == 6 ? "quadratic_kappa_with_zeros" : p == 5 ? "quadratic_recompute" : "quadratic"; }
// what a maintainer needs to tell defects apart
static std::string cfg_class(const Cfg& c)
{
  return std::string("prior=") + prior_name(c.prior) + ";subsets=" + (c.N > 1 ? "many" : "1");
}

static shared_ptr<GeneralisedPrior<Target>> my_prior(const World& w, int prior)
{
  if (prior == 5) return shared_ptr<GeneralisedPrior<Target>>(new QuadraticRecompute(false, 1.F));
  return make_prior(w, prior);
}

typedef Recording<OSSPSReconstruction<Target>> Recon;

// a separable Gaussian whose width is comparable to the voxel size (rr::make_gaussian() is narrower than one voxel of these worlds)
static shared_ptr<DataProcessor<Target>> smoothing_filter(const World& w)
{
  auto f = new SeparableGaussianImageFilter<float>();
  const CartesianCoordinate3D<float> vs = w.im->get_voxel_size();
  f->set_fwhms(make_coordinate(1.5F * vs.z(), 1.5F * vs.y(), 1.5F * vs.x()));
  f->set_max_kernel_sizes(make_coordinate(3, 3, 3));
  f->set_normalise(true);
  return shared_ptr<DataProcessor<Target>>(f);
}

static void configure(Recon& r, const World& w, const Cfg& c, const Built& b, int K, int k0, const std::string& prefix, bool write_files, const std::string& den_file)
{
  r.set_objective_function_sptr(b.obj);
  r.set_num_subsets(c.N);
  r.set_num_subiterations(K);
  r.set_start_subiteration_num(k0);
  r.set_start_subset_num(c.ss);
  r.set_save_interval(write_files ? 1 : K);
  r.set_disable_output(!write_files);
  r.set_output_filename_prefix(prefix);
  // the OSSPS parameters of the .par file (no setters exist; these are the parsed members)
  r.enforce_initial_positivity = c.pos;
  r.upper_bound = ubound_of(c);
  r.relaxation_parameter = alpha_of(c);
  r.relaxation_gamma = gamma_of(c);
  r.precomputed_denominator_filename = c.den == 1 ? "1" : den_file;
  if (c.iif) { r.set_inter_iteration_filter_ptr(smoothing_filter(w)); r.set_inter_iteration_filter_interval(2); }
}

// threshold_min_to_small_positive_value as documented
template <class T> static void model_min_to_small_positive(std::vector<T>& v, T small_number)
{
  T mp = 0; bool any = false;
  for (T x : v) if (x > 0 && (!any || x < mp)) { mp = x; any = true; }
  if (any) { const T t = mp * small_number; for (T& x : v) if (t > x) x = t; }
  else for (T& x : v) x = small_number;
}

struct RunOut
{
  std::vector<std::vector<float>> snaps;
  std::vector<float> D_setup, D_end; // precomputed_denominator_ptr after set_up() / after the run (in-memory runs only)
};

static bool run_recon(vmc::Ctx& ctx, const World& w, const Model& m, const Cfg& c, int K, int k0, const std::vector<float>* init, const std::string& init_file,
                      const std::string& prefix, bool write_files, const std::string& den_file, RunOut& out, Built& b, std::string& err)
{
  Setup s; s.N = c.N; s.sym = c.sym; s.use_subset_sens = c.uss; s.prior = c.prior == 5 ? 0 : c.prior;
  bool ok = true;
  if (small::throws(
          [&] {
            b = build_objective(w, m, s);
            if (c.prior == 5) { b.prior = my_prior(w, 5); b.obj->set_prior_sptr(b.prior); }
            Recon r;
            configure(r, w, c, b, K, k0, prefix, write_files, den_file);
            if (init)
              {
                shared_ptr<Target> target = to_image(w, *init);
                if (r.set_up(target) != Succeeded::yes) { ok = false; err = "set_up returned Succeeded::no"; return; }
                if (r.precomputed_denominator_ptr) out.D_setup = flatf(*r.precomputed_denominator_ptr);
                if (r.reconstruct(target) != Succeeded::yes) { ok = false; err = "reconstruct returned Succeeded::no"; return; }
                if (r.precomputed_denominator_ptr) out.D_end = flatf(*r.precomputed_denominator_ptr);
              }
            else
              {
                r.initial_data_filename = init_file; // 'initial estimate' of the parameter file
                if (r.reconstruct() != Succeeded::yes) { ok = false; err = "reconstruct returned Succeeded::no"; return; }
              }
            out.snaps = r.snaps;
          },
          &err))
    ok = false;
  ctx.count("traces_validated_against_impl");
  ctx.count("transitions", (long long)out.snaps.size());
  return ok;
}

// ---------------------------------------------------------------- reference (double)
struct RefStatic
{
  std::vector<int> subset_of;
  std::vector<double> sens_total, D_data, curv, D; // D = floor(D_data(or 1) + 2 curv)
  bool tie = false; // a bin sits at the 1e-6*max threshold of divide_and_truncate: denominator not decidable from the inputs
  long long capped_bins = 0;
};
static void ref_denominator(const World& w, const Model& m, RefStatic& rs)
{
  std::vector<double> ones(w.nv, 1.0);
  const std::vector<double> g1 = small::mulP(w.P, ones);
  std::vector<double> quot(w.nb, 0.0);
  for (const std::vector<int>& vg : w.viewgram_of)
    {
      double mx = 0; for (int b : vg) mx = std::max(mx, g1[b]);
      const double sv = std::max(mx * 1e-6, 0.0);
      for (int b : vg)
        {
          if (g1[b] > sv / 4 && g1[b] < sv * 4) rs.tie = true;
          if (g1[b] <= sv) { quot[b] = 0; continue; }
          const double den = m.n[b] * m.n[b] * m.y[b];
          if (den > 0 && std::fabs(g1[b] / den - 10000.0) < 10.0) rs.tie = true;
          if (g1[b] > 10000.0 * den) { quot[b] = 10000.0; ++rs.capped_bins; }
          else quot[b] = g1[b] / den;
        }
    }
  rs.D_data = small::mulPT(w.P, quot);
}

struct StepOut
{
  std::vector<double> out, mag;
  bool capped = false, tie = false;
  int at_zero = 0, at_upper = 0;
};
static StepOut ref_step(const World& w, const Model& m, const Cfg& c, const RefStatic& rs, int S, const std::vector<double>& lam,
                        const std::vector<double>* prior_grad, double zeta, double U)
{
  StepOut o;
  std::vector<double> num(w.nv, 0.0), mag(w.nv, 0.0);
  for (size_t b = 0; b < w.nb; ++b)
    {
      if (rs.subset_of[b] != S) continue;
      double q = 0;
      if (m.y[b] > 0)
        {
          double den = m.a[b];
          for (auto& e : w.P.rows[b]) den += e.second * lam[e.first];
          if (den > 0 && std::fabs(m.y[b] / den - 10000.0) < 10.0) o.tie = true;
          if (m.y[b] > 10000.0 * den) { q = 10000.0; o.capped = true; }
          else q = m.y[b] / den;
        }
      const double eff = 1.0 / m.n[b];
      for (auto& e : w.P.rows[b]) { num[e.first] += e.second * (q - eff); mag[e.first] += e.second * (q + eff); }
    }
  double lmax = 0; for (double x : lam) lmax = std::max(lmax, std::fabs(x));
  o.out.resize(w.nv); o.mag.resize(w.nv);
  for (size_t j = 0; j < w.nv; ++j)
    {
      if (prior_grad)
        {
          num[j] -= (*prior_grad)[j] / c.N;
          mag[j] += (std::fabs((*prior_grad)[j]) + 2 * rs.curv[j] * lmax) / c.N;
        }
      const double x = lam[j] + zeta * c.N * num[j] / rs.D[j];
      o.mag[j] = std::fabs(lam[j]) + zeta * c.N * mag[j] / rs.D[j];
      if (x <= 0) { o.out[j] = 0; ++o.at_zero; }
      else if (x >= U) { o.out[j] = U; ++o.at_upper; }
      else o.out[j] = x;
    }
  return o;
}

static void cleanup(const std::string& prefix, int K)
{
  for (const char* ext : { ".hv", ".v", ".ahv" })
    {
      ::unlink((prefix + "_precomputed_denominator" + ext).c_str());
      ::unlink((prefix + "_r_precomputed_denominator" + ext).c_str());
      ::unlink((prefix + "_init" + ext).c_str());
      for (int k = 1; k <= K; ++k) { char num[32]; snprintf(num, sizeof num, "_%d", k); ::unlink((prefix + num + ext).c_str()); }
    }
}

// Everything that is demanded of ONE run of K sub-iterations k0..k0+K-1 (on fresh or on re-used objects) with configuration c from the image 'init'
// (as handed to set_up): iterates within bounds, the precomputed denominator after set_up(), the stored denominator strictly positive, every step == the update formula.
// 'hist' is "" for runs on freshly built objects and "history=reused_object;..." for runs on re-used objects (it is part of the violation keys).
// Returns false when the reference could not be built (recorded).
static bool check_run(vmc::Ctx& ctx, const World& w, const Model& m, const Cfg& c, const std::string& kase, const std::string& hist, int k0, const std::vector<float>& init,
                      const RunOut& U, const ObjFn& obj, RefStatic& rs)
{
  const std::vector<std::vector<float>>& Us = U.snaps;
  const int K = (int)Us.size();
  const std::string cls = cfg_class(c);
  const float Uf = static_cast<float>(ubound_of(c));
  // ---------------- iterates within [0, upper bound]
  {
    // a normalised smoothing kernel is a convex combination up to rounding: allow 1e-5 relative above the bound when the filter is on
    const double hi = c.iif ? (double)Uf * (1 + 1e-5) : (double)Uf;
    bool done = false;
    for (int k = 0; k < K && !done; ++k)
      for (float x : Us[k])
        if (!(x >= 0) || !((double)x <= hi) || !std::isfinite(x))
          {
            ctx.violation("clause=bounds;" + hist + cls + ";ub=" + vmc::str(c.ub) + ";iif=" + vmc::str(c.iif), kase + ";k=" + vmc::str(k0 + k),
                          "estimate after sub-iteration " + vmc::str(k0 + k) + " contains " + vmc::str(x) + ", outside [0, " + vmc::str(Uf) + "]");
            done = true; break;
          }
    ctx.count("iterates_checked_within_bounds", K);
  }

  // ---------------- reference quantities
  std::string why;
  if (small::throws([&] { rs.subset_of = subset_of_bins(w, *obj.get_projector_pair().get_symmetries_used(), c.N); }, &why))
    { ctx.count("rejected_configs"); ctx.observe("no subset partition: " + kase + " " + why); return false; }
  rs.sens_total.assign(w.nv, 0.0);
  for (size_t b = 0; b < w.nb; ++b) for (auto& e : w.P.rows[b]) rs.sens_total[e.first] += e.second / m.n[b];
  size_t nonident = 0; for (size_t j = 0; j < w.nv; ++j) if (rs.sens_total[j] <= 0) ++nonident;
  if (nonident) ctx.count("configs_with_nonidentifiable_voxels");
  ref_denominator(w, m, rs);
  if (rs.capped_bins) ctx.count("configs_with_capped_hessian_quotient");
  std::vector<float> lam0 = init;
  if (c.pos) model_min_to_small_positive(lam0, 10.E-6F);
  shared_ptr<GeneralisedPrior<Target>> ref_prior;
  rs.curv.assign(w.nv, 0.0);
  if (c.prior)
    {
      ref_prior = my_prior(w, c.prior);
      ref_prior->set_up(to_image(w, lam0));
      shared_ptr<Target> cv(w.im->get_empty_copy());
      dynamic_cast<PriorWithParabolicSurrogate<Target>&>(*ref_prior).parabolic_surrogate_curvature(*cv, *to_image(w, lam0));
      rs.curv = to_double(flatf(*cv));
    }
  rs.D.resize(w.nv);
  for (size_t j = 0; j < w.nv; ++j) rs.D[j] = (c.den == 1 ? 1.0 : rs.D_data[j]) + 2 * rs.curv[j];
  model_min_to_small_positive(rs.D, 1e-5);
  const bool formula = !c.iif && !rs.tie && !c.files;
  if (rs.tie) ctx.count("configs_screened_threshold_tie_in_denominator");

  // ---------------- the precomputed denominator itself
  if (!rs.tie && !U.D_setup.empty())
    {
      ctx.count("denominators_checked");
      double mx = 0; for (double x : rs.D_data) mx = std::max(mx, x);
      for (size_t j = 0; j < w.nv; ++j)
        {
          const double ref = c.den == 1 ? 1.0 : rs.D_data[j];
          const double tol = c.den == 1 ? 0.0 : 2e-4 * ref + 2e-6 * mx;
          if (!(std::fabs((double)U.D_setup[j] - ref) <= tol))
            {
              ctx.violation("clause=denominator_data;" + hist + cls + ";den=" + (c.den == 1 ? "one" : "computed") + ";norm=" + vmc::str(c.norm), kase,
                            "precomputed denominator after set_up(), voxel " + vmc::str(j) + ": STIR " + vmc::str(U.D_setup[j]) + " reference " + vmc::str(ref)
                                + " ( = sum_b G_bj (G 1)_b / (n_b^2 y_b) on the explicit matrix)");
              break;
            }
        }
    }
  if (c.prior != 5 && !U.D_end.empty())
    {
      ctx.count("denominators_checked_strictly_positive");
      for (size_t j = 0; j < w.nv; ++j)
        if (!(U.D_end[j] > 0) || !std::isfinite(U.D_end[j]))
          { ctx.violation("clause=denominator_positive;" + hist + cls + ";den=" + vmc::str(c.den), kase, "denominator used for the updates, voxel " + vmc::str(j) + " = " + vmc::str(U.D_end[j]) + " is not strictly positive"); break; }
    }

  // ---------------- per-step formula
  // Hypotheses that the statement leaves open, each to be held consistently over the whole run:
  //   n = floor(k/N) (A) or floor((k-1)/N) (B);   voxels that no LOR sees are set to 0 before the first update only (F1) or before every update (F2)
  if (formula)
    {
      const double alpha = alpha_of(c), gamma = gamma_of(c), Ud = (double)Uf;
      bool alive[2][2] = { { true, true }, { true, true } }; // [B][F2]
      for (int k = k0; k < k0 + K; ++k)
        {
          const int S = (k - 1 + c.ss) % c.N;
          std::vector<float> prevf[2];
          prevf[0] = k == k0 ? lam0 : Us[k - k0 - 1];
          prevf[1] = prevf[0];
          for (size_t j = 0; j < w.nv; ++j) if (rs.sens_total[j] <= 0) prevf[1][j] = 0.F;
          if (k == k0) prevf[0] = prevf[1];
          const bool fill_matters = !same_bits(prevf[0], prevf[1]);
          const double z[2] = { alpha / (1 + gamma * (k / c.N)), alpha / (1 + gamma * ((k - 1) / c.N)) };
          const bool z_matters = z[0] != z[1];
          StepOut R[2][2]; int bad[2][2];
          bool tie = false, capped = false;
          for (int f = 0; f < 2; ++f)
            {
              if (f == 1 && !fill_matters) { for (int zi = 0; zi < 2; ++zi) R[zi][1] = R[zi][0]; continue; }
              const std::vector<double> prev = to_double(prevf[f]);
              std::vector<double> pg;
              if (c.prior)
                {
                  shared_ptr<Target> g(w.im->get_empty_copy());
                  ref_prior->compute_gradient(*g, *to_image(w, prevf[f]));
                  pg = to_double(flatf(*g));
                }
              for (int zi = 0; zi < 2; ++zi)
                {
                  if (zi == 1 && !z_matters) { R[1][f] = R[0][f]; continue; }
                  R[zi][f] = ref_step(w, m, c, rs, S, prev, c.prior ? &pg : nullptr, z[zi], Ud);
                  tie = tie || R[zi][f].tie; capped = capped || R[zi][f].capped;
                }
            }
          if (capped) ctx.count("steps_with_capped_quotient");
          if (tie) { ctx.count("steps_screened_threshold_tie"); continue; }
          ctx.count("steps_checked_against_formula");
          if (R[0][0].at_zero) ctx.count("steps_with_voxels_clamped_at_0");
          if (R[0][0].at_upper && c.ub) ctx.count("steps_with_voxels_clamped_at_upper_bound");
          auto first_bad = [&](const StepOut& r) -> int {
            double mx = 0; for (double x : r.out) mx = std::max(mx, std::fabs(x));
            for (size_t j = 0; j < w.nv; ++j)
              if (!(std::fabs((double)Us[k - k0][j] - r.out[j]) <= 2e-4 * r.mag[j] + 2e-6 * std::min(mx, 1e30))) return (int)j;
            return -1;
          };
          bool any_ok = false;
          for (int zi = 0; zi < 2; ++zi) for (int f = 0; f < 2; ++f) { bad[zi][f] = first_bad(R[zi][f]); any_ok = any_ok || bad[zi][f] < 0; }
          if (z_matters)
            {
              if ((bad[0][0] < 0 || bad[0][1] < 0) && bad[1][0] >= 0 && bad[1][1] >= 0) ctx.count("steps_that_identify_n_as_floor_k_over_N");
              if ((bad[1][0] < 0 || bad[1][1] < 0) && bad[0][0] >= 0 && bad[0][1] >= 0) ctx.count("steps_that_identify_n_as_floor_kminus1_over_N");
            }
          if (fill_matters)
            {
              if ((bad[0][0] < 0 || bad[1][0] < 0) && bad[0][1] >= 0 && bad[1][1] >= 0) ctx.count("steps_that_identify_nonidentifiable_voxels_zeroed_at_first_step_only");
              if ((bad[0][1] < 0 || bad[1][1] < 0) && bad[0][0] >= 0 && bad[1][0] >= 0) ctx.count("steps_that_identify_nonidentifiable_voxels_zeroed_at_every_step");
            }
          const std::string key_tail = std::string(";den=") + (c.den == 1 ? "one" : "computed"); // the options are in the case string; the key names the code path
          if (!any_ok)
            {
              const int j = bad[0][0];
              ctx.violation("clause=update_formula;" + hist + cls + key_tail, kase + ";k=" + vmc::str(k),
                            "sub-iteration " + vmc::str(k) + " (subset " + vmc::str(S) + "), voxel " + vmc::str(j) + ": STIR " + vmc::str(Us[k - k0][j]) + ", reference " + vmc::str(R[0][0].out[j])
                                + " with n=floor(k/N) or " + vmc::str(R[1][0].out[j]) + " with n=floor((k-1)/N) (previous value " + vmc::str(prevf[0][j]) + ", D " + vmc::str(rs.D[j]) + ", zeta " + vmc::str(z[0]) + " resp. " + vmc::str(z[1])
                                + (fill_matters ? "; zeroing the voxels that no LOR sees before this step does not explain it either" : "") + ")");
              break;
            }
          bool any_alive = false;
          for (int zi = 0; zi < 2; ++zi) for (int f = 0; f < 2; ++f) { alive[zi][f] = alive[zi][f] && bad[zi][f] < 0; any_alive = any_alive || alive[zi][f]; }
          if (!any_alive)
            {
              ctx.violation("clause=relaxation_schedule;" + hist + cls + key_tail, kase + ";k=" + vmc::str(k),
                            "up to sub-iteration " + vmc::str(k) + " every step matches the update for n=floor(k/N) or n=floor((k-1)/N) (voxels that no LOR sees zeroed at the first step only or at every step), "
                            "but no single choice matches all steps of the run");
              break;
            }
        }
    }

  return true;
}

static void run_cfg(vmc::Ctx& ctx, const Cfg& c)
{
  const std::string kase = cfg_str(c);
  ctx.current("C08", kase);
  if (c.g < 0 || c.g >= NGEOMS || c.N < 1) return;
  World& w = world(c.g, c.sym);
  const Model m = make_model(w, c.norm, c.add, c.data);
  const int K = 3 * c.N;
  const std::string cls = cfg_class(c);
  const std::string prefix = ctx.tmpdir + "/c08_" + vmc::str((int)getpid());
  const std::vector<float> init = image_pattern(w, c.start);
  const float Uf = static_cast<float>(ubound_of(c));

  // ---------------- uninterrupted run
  RunOut U;
  Built bu; std::string err;
  // files mode: as a user would run it - 'initial estimate' is a file, iterates are saved, the resumed runs read the saved files.
  // (The Interfile header keeps 6 significant digits of the voxel size, so the geometry of an image read back is not bitwise the
  // in-memory one - C10's subject; with the first image coming from a file as well, all runs of this configuration share one geometry.
  // The explicit-matrix reference belongs to the in-memory geometry, so the formula is only checked in the in-memory configurations.)
  std::string init_file;
  if (c.files)
    {
      init_file = prefix + "_init.hv";
      std::string e0;
      if (small::throws([&] { InterfileOutputFileFormat f; std::string fn = prefix + "_init"; if (f.write_to_file(fn, *to_image(w, init)) != Succeeded::yes) throw std::runtime_error("write failed"); }, &e0))
        { ctx.count("rejected_configs"); ctx.observe("could not write the initial image: " + e0.substr(0, 160)); return; }
    }
  if (!run_recon(ctx, w, m, c, K, 1, c.files ? nullptr : &init, init_file, prefix, c.files != 0, "", U, bu, err))
    {
      ctx.count("rejected_configs");
      if (c.prior == 3) ctx.count("rejected_prior_without_parabolic_surrogate");
      else if (err.find("balanced") != std::string::npos) ctx.count("rejected_unbalanced_subsets");
      else ctx.observe("configuration rejected: " + kase + " : " + err.substr(0, 200));
      cleanup(prefix, K);
      return;
    }
  ctx.count("evaluations");
  if (c.prior == 3) { ctx.observe("OSSPS accepted a prior that is not a PriorWithParabolicSurrogate: " + kase); cleanup(prefix, K); return; }
  const std::vector<std::vector<float>>& Us = U.snaps;
  if ((int)Us.size() != K) { ctx.violation("clause=loop;" + cls, kase, "reconstruct() produced " + vmc::str(Us.size()) + " sub-iterations instead of " + vmc::str(K)); cleanup(prefix, K); return; }
  // state = (configuration, k, image)
  for (int k = 0; k < K; ++k) ctx.nontrivial(vmc::fnv(Us[k].data(), Us[k].size() * sizeof(float), vmc::fnv(kase + vmc::str(k))));
  ctx.count("states", K);

  RefStatic rs;
  if (!check_run(ctx, w, m, c, kase, "", 1, init, U, *bu.obj, rs)) { cleanup(prefix, K); return; }
  const bool formula = !c.iif && !rs.tie && !c.files;

  // ---------------- restart from every k
  const std::string den_file = c.den == 2 ? prefix + "_precomputed_denominator.hv" : "";
  for (int k = 1; k < K; ++k)
    {
      RunOut R; Built br; std::string e2;
      bool ok;
      if (c.files)
        {
          char num[32]; snprintf(num, sizeof num, "_%d.hv", k);
          std::string e3; std::vector<float> back;
          if (!small::throws([&] { back = flatf(*read_from_file<Target>(prefix + num)); }, &e3))
            ctx.count(same_bits(back, Us[k - 1]) ? "saved_iterates_read_back_bitwise_equal" : "saved_iterates_read_back_not_bitwise_equal");
          ok = run_recon(ctx, w, m, c, K, k + 1, nullptr, prefix + num, prefix + "_r", false, den_file, R, br, e2);
        }
      else ok = run_recon(ctx, w, m, c, K, k + 1, &Us[k - 1], "", prefix + "_r", false, den_file, R, br, e2);
      ctx.count("restarts");
      ctx.count("transitions"); // the restart itself
      const std::vector<std::vector<float>>& Rk = R.snaps;
      if (!ok) { ctx.violation("clause=restart;kind=error;" + cls + ";den=" + vmc::str(c.den) + ";files=" + vmc::str(c.files), kase + ";k=" + vmc::str(k), "restart at sub-iteration " + vmc::str(k + 1) + " failed: " + e2.substr(0, 300)); break; }
      if ((int)Rk.size() != K - k) { ctx.violation("clause=restart;kind=length;" + cls, kase + ";k=" + vmc::str(k), "restart produced " + vmc::str(Rk.size()) + " sub-iterations instead of " + vmc::str(K - k)); break; }
      bool has_zero = false; for (float x : Us[k - 1]) if (x == 0) has_zero = true;
      const bool rethreshold = c.pos && has_zero; // set_up() of the resumed run lifts exact zeros to a small positive value
      if (rethreshold) ctx.count("restarts_from_image_with_zeros_rethresholded");
      // does the saved iterate carry non-zero values in voxels that no LOR sees (only a prior can put them there)?
      bool nonident_nonzero = false;
      for (size_t j = 0; j < w.nv; ++j) if (rs.sens_total[j] <= 0 && Us[k - 1][j] != 0) nonident_nonzero = true;
      if (nonident_nonzero) ctx.count("restarts_from_image_with_nonzero_nonidentifiable_voxels");
      bool bad = false;
      for (int i = 0; i < K - k && !bad; ++i)
        {
          const std::vector<float>& a = Rk[i]; const std::vector<float>& u = Us[k + i];
          for (float x : a)
            if (!(x >= 0) || !((double)x <= (c.iif ? (double)Uf * (1 + 1e-5) : (double)Uf)) || !std::isfinite(x))
              {
                ctx.violation("clause=bounds;run=resumed;" + cls + ";ub=" + vmc::str(c.ub) + ";iif=" + vmc::str(c.iif), kase + ";k=" + vmc::str(k),
                              "resumed at sub-iteration " + vmc::str(k + 1) + ": estimate after sub-iteration " + vmc::str(k + 1 + i) + " contains " + vmc::str(x) + ", outside [0, " + vmc::str(Uf) + "]");
                bad = true; break;
              }
          if (bad) break;
          if (same_bits(a, u)) { ctx.count("restart_images_bitwise_equal"); continue; }
          double mx = 0; for (float x : u) mx = std::max(mx, (double)std::fabs(x));
          const double d = max_abs_diff(a, u);
          const double rel = mx > 0 ? d / mx : d;
          if (rethreshold)
            {
              // the resumed run was asked to modify its start image ('enforce initial positivity'): it does not resume from the saved iterate, equality is not demanded
              ctx.count(rel <= 1e-4 ? "restart_images_equal_within_1e-4_after_rethreshold"
                                    : nonident_nonzero ? "restart_images_deviating_more_than_1e-4_after_rethreshold_and_nonidentifiable_voxels_nonzero" : "restart_images_deviating_more_than_1e-4_after_rethreshold");
              if (rel > 1e-4 && !nonident_nonzero)
                {
                  ctx.maxi("max_deviation_after_rethreshold_ppm_of_max", (long long)(rel * 1e6));
                  static bool once = false;
                  if (!once) { once = true; ctx.observe("resumed run with 'enforce initial positivity' from an iterate with exact zeros deviates from the uninterrupted run by " + vmc::str(rel) + " of the maximum (not a violation: the option changes the start image), e.g. " + kase + ";k=" + vmc::str(k)); }
                }
              continue;
            }
          if (rel <= 1e-5)
            {
              ctx.count("restart_images_equal_within_rounding_only");
              {
                static std::set<std::string> seen; // one written-out example per class and shard
                const std::string oc = "files=" + vmc::str(c.files) + ";iif=" + vmc::str(c.iif) + ";nonidentifiable_voxels_nonzero=" + (nonident_nonzero ? "1" : "0");
                if (seen.insert(oc).second) ctx.observe("restart equal only within rounding (relative difference " + vmc::str(rel) + " <= 1e-5), class " + oc + ", e.g. " + kase + ";k=" + vmc::str(k));
              }
              continue;
            }
          // when the saved iterate has non-zero values in voxels that no LOR sees, the options below do not matter for telling defects apart
          ctx.violation(std::string("clause=restart;kind=images_differ;nonidentifiable_voxels_nonzero=") + (nonident_nonzero ? "1" : "0") + ";" + cls
                            + (nonident_nonzero ? std::string() : std::string(";den=") + (c.den == 1 ? "one" : c.den == 2 ? "file" : "computed") + ";files=" + vmc::str(c.files)),
                        kase + ";k=" + vmc::str(k),
                        "resumed at sub-iteration " + vmc::str(k + 1) + " from the image after sub-iteration " + vmc::str(k) + ": image after sub-iteration " + vmc::str(k + 1 + i)
                            + " differs from the uninterrupted run by " + vmc::str(d) + " (max value " + vmc::str(mx) + ")");
          bad = true;
        }
      if (bad) break;
    }
  cleanup(prefix, K);
  if (ctx.samples.size() < 3 && c.N > 1 && c.norm && c.prior && formula)
    ctx.sample(kase + " : " + vmc::str(K) + " sub-iterations match clamp(l + zeta N grad/D, 0, U) on explicit G, " + vmc::str(K - 1) + " restarts reproduce the run; image max after last sub-iteration "
               + vmc::str(*std::max_element(Us[K - 1].begin(), Us[K - 1].end())));
}

// ================================================================ histories on RE-USED objects
// ONE OSSPSReconstruction object with ONE objective function (and, where the prior stays or only its penalisation factor changes, ONE prior object) is configured,
// set_up() and run; then - without any setter call, or after setter calls for exactly the settings that change - set_up() again and run again (thorough: a third time).
// Settings of a run: prior, number of subsets, alpha, gamma, upper bound, precomputed denominator (computed / "1" / file), start image, data.
//   start 0..2: a new run (start_subiteration_num 1) from that image pattern;  start 3 (later runs only): continue from the last image of the previous run with
//   start_subiteration_num = (last sub-iteration of the previous run)+1.   Every run does two full iterations of ITS number of subsets.
// Oracle for every run of the history: check_run() (denominator after set_up == -(approximate Hessian) 1 of the CURRENT data / 1 / the file, strictly positive stored
// denominator, every step == update formula with D, zeta, N, prior, bound of the CURRENT settings, bounds) and: images == those of freshly built objects with the current
// settings started from the same image at the same sub-iteration number.
static std::string reuse_str(const std::vector<Cfg>& runs)
{
  std::string s = cfg_str(runs[0]) + ";reuse=" + vmc::str((int)runs.size());
  for (size_t i = 1; i < runs.size(); ++i)
    {
      const Cfg& c = runs[i];
      s += ";r" + vmc::str((int)i + 1) + "=" + vmc::join(std::vector<int>{ c.prior, c.N, c.al, c.ga, c.ub, c.den, c.start, c.data });
    }
  return s;
}
static std::vector<Cfg> reuse_parse(const std::string& str)
{
  std::vector<Cfg> runs; runs.push_back(cfg_parse(str));
  auto m = vmc::kv(str);
  const int n = atoi(m["reuse"].c_str());
  for (int i = 2; i <= n; ++i)
    {
      const std::vector<int> v = vmc::ints(m["r" + vmc::str(i)]);
      Cfg c = runs[0];
      if (v.size() == 8) { c.prior = v[0]; c.N = v[1]; c.al = v[2]; c.ga = v[3]; c.ub = v[4]; c.den = v[5]; c.start = v[6]; c.data = v[7]; }
      runs.push_back(c);
    }
  return runs;
}

// a denominator file "given by the user": written by set_up() of a separate, fresh reconstruction object (automatic computation) for the data of the run
static std::string den_file_for(const std::string& tmpdir, const World& w, const Model& m, const Cfg& c)
{
  static std::map<std::string, std::string> files;
  const std::string key = vmc::str(c.g) + "_" + vmc::str(c.sym) + "_" + vmc::str(c.norm) + "_" + vmc::str(c.add) + "_" + vmc::str(c.data);
  auto it = files.find(key);
  if (it != files.end()) return it->second;
  const std::string pre = tmpdir + "/c08_" + vmc::str((int)getpid()) + "_df" + key;
  Setup s; s.N = 1; s.sym = c.sym; s.use_subset_sens = c.uss; s.prior = 0;
  Built b = build_objective(w, m, s);
  Recon r;
  Cfg c0 = c; c0.N = 1; c0.prior = 0; c0.den = 0; c0.ss = 0; c0.pos = 0; c0.iif = 0;
  configure(r, w, c0, b, 1, 1, pre, false, "");
  if (r.set_up(to_image(w, image_pattern(w, 0))) != Succeeded::yes) throw std::runtime_error("could not produce a denominator file");
  return files[key] = pre + "_precomputed_denominator.hv";
}

struct FreshRun { bool ok = false; std::string err; RunOut out; };
static const FreshRun& fresh_run(vmc::Ctx& ctx, const World& w, const Model& m, const Cfg& c, int Kend, int k0, const std::vector<float>& init, const std::string& den_file, const std::string& prefix)
{
  static std::map<uint64_t, FreshRun> memo; // a fresh run is a function of (settings, first sub-iteration, start image): executed once per process
  const uint64_t h = vmc::fnv(init.data(), init.size() * sizeof(float), vmc::fnv(cfg_str(c) + ";k0=" + vmc::str(k0)));
  auto it = memo.find(h);
  if (it != memo.end()) { ctx.count("reuse_fresh_reference_runs_shared"); return it->second; }
  if (memo.size() > 20000) memo.clear();
  FreshRun& f = memo[h];
  Built bf;
  f.ok = run_recon(ctx, w, m, c, Kend, k0, &init, "", prefix + "_f", false, den_file, f.out, bf, f.err);
  ctx.count("reuse_fresh_reference_runs");
  return f;
}

static void run_reuse(vmc::Ctx& ctx, const std::vector<Cfg>& runs)
{
  const std::string kase = reuse_str(runs);
  ctx.current("C08", kase);
  const Cfg& c0 = runs[0];
  if (runs.size() < 2 || c0.g < 0 || c0.g >= NGEOMS || c0.files || c0.iif) return;
  for (const Cfg& c : runs) if (c.N < 1) return;
  World& w = world(c0.g, c0.sym);
  const std::string prefix = ctx.tmpdir + "/c08_" + vmc::str((int)getpid()) + "_u";
  Built b; Recon r;
  std::vector<float> last; int Kprev = 0, Kmax = 0;
  std::string hprefix = cfg_str(c0); // the history so far (for the identity of states)
  static std::set<uint64_t> first_runs_seen;
  static std::map<uint64_t, bool> checked; // check_run is a function of (settings, k0, start image, iterates, denominators): evaluated once per process
  size_t runs_done = 0;
  for (size_t i = 0; i < runs.size(); ++i)
    {
      const Cfg& c = runs[i];
      const Model m = make_model(w, c.norm, c.add, c.data);
      const bool resume = i > 0 && c.start == 3;
      const int k0 = resume ? Kprev + 1 : 1, Kend = k0 - 1 + 2 * c.N;
      Kmax = std::max(Kmax, Kend);
      const std::vector<float> init = resume ? last : image_pattern(w, c.start == 3 ? 1 : c.start);
      std::string den_file, err;
      if (c.den == 2 && small::throws([&] { den_file = den_file_for(ctx.tmpdir, w, m, c); }, &err))
        { ctx.count("rejected_configs"); ctx.observe("no denominator file: " + kase + " : " + err.substr(0, 160)); break; }
      if (i > 0) hprefix += ";r" + vmc::str((int)i + 1) + "=" + vmc::join(std::vector<int>{ c.prior, c.N, c.al, c.ga, c.ub, c.den, c.start, c.data });
      const std::string cls = cfg_class(c);
      const std::string hist = i == 0 ? std::string() : std::string("history=reused_object;prev_prior=") + prior_name(runs[i - 1].prior) + ";";

      // ---------------- the re-used objects
      RunOut R; bool ok = true; int setters = 0;
      if (small::throws(
              [&] {
                if (i == 0)
                  {
                    Setup s; s.N = c.N; s.sym = c.sym; s.use_subset_sens = c.uss; s.prior = c.prior == 5 ? 0 : c.prior;
                    b = build_objective(w, m, s);
                    if (c.prior == 5) { b.prior = my_prior(w, 5); b.obj->set_prior_sptr(b.prior); }
                    configure(r, w, c, b, Kend, k0, prefix, false, den_file);
                  }
                else
                  { // setter calls for exactly what changes
                    const Cfg& p = runs[i - 1];
                    if (c.prior != p.prior)
                      {
                        ++setters;
                        if ((p.prior == 1 || p.prior == 2) && (c.prior == 1 || c.prior == 2))
                          { b.prior->set_penalisation_factor(c.prior == 1 ? 0.1F : 10.F); ctx.count("reuse_penalisation_factor_changed_on_the_same_prior_object"); }
                        else { b.prior = my_prior(w, c.prior); b.obj->set_prior_sptr(b.prior); ctx.count(c.prior ? "reuse_other_prior_object_set" : "reuse_prior_removed"); }
                      }
                    else if (c.prior) ctx.count("reuse_same_prior_object_set_up_again");
                    if (c.N != p.N) { ++setters; r.set_num_subsets(c.N); ctx.count("reuse_num_subsets_changed"); }
                    if (Kend != Kprev) { ++setters; r.set_num_subiterations(Kend); r.set_save_interval(Kend); }
                    if (k0 != r.get_start_subiteration_num()) { ++setters; r.set_start_subiteration_num(k0); }
                    if (c.al != p.al) { ++setters; r.relaxation_parameter = alpha_of(c); }
                    if (c.ga != p.ga) { ++setters; r.relaxation_gamma = gamma_of(c); }
                    if (c.ub != p.ub) { ++setters; r.upper_bound = ubound_of(c); }
                    if (c.al != p.al || c.ga != p.ga || c.ub != p.ub) ctx.count("reuse_relaxation_or_upper_bound_changed");
                    const std::string dn = c.den == 1 ? "1" : den_file;
                    if (dn != r.precomputed_denominator_filename) { ++setters; r.precomputed_denominator_filename = dn; ctx.count("reuse_precomputed_denominator_setting_changed"); }
                    if (c.data != p.data) { ++setters; b.y = projdata_from(w, m.y); r.set_input_data(b.y); ctx.count("reuse_input_data_changed"); }
                    if (resume) ctx.count("reuse_continued_from_last_image"); else if (c.start != p.start) ctx.count("reuse_other_start_image");
                    if (!setters) ctx.count(resume || c.start != p.start ? "reuse_without_any_setter_call_other_image" : "reuse_without_any_setter_call_same_start_image");
                  }
                r.snaps.clear();
                shared_ptr<Target> target = to_image(w, init);
                if (r.set_up(target) != Succeeded::yes) { ok = false; err = "set_up returned Succeeded::no"; return; }
                if (r.precomputed_denominator_ptr) R.D_setup = flatf(*r.precomputed_denominator_ptr);
                if (r.reconstruct(target) != Succeeded::yes) { ok = false; err = "reconstruct returned Succeeded::no"; return; }
                if (r.precomputed_denominator_ptr) R.D_end = flatf(*r.precomputed_denominator_ptr);
                R.snaps = r.snaps;
              },
              &err))
        ok = false;
      ctx.count("traces_validated_against_impl");
      ctx.count("transitions", (long long)R.snaps.size() + (i > 0 ? 1 : 0)); // the sub-iterations + the re-use (setters + set_up on the used object)
      if (i > 0) ctx.count("reuse_transitions");

      // ---------------- freshly built objects with the current settings, from the same image
      const FreshRun& F = fresh_run(ctx, w, m, c, Kend, k0, init, den_file, prefix);
      if (!F.ok)
        {
          ctx.count("rejected_configs");
          if (ok) ctx.observe("re-used objects run a configuration that freshly built objects reject (" + F.err.substr(0, 120) + "): " + kase);
          break;
        }
      if (!ok)
        {
          if (i == 0) { ctx.count("rejected_configs"); break; }
          ctx.violation("clause=reuse;kind=error;" + hist + cls, kase, "run " + vmc::str((int)i + 1) + " on the re-used objects fails (" + err.substr(0, 240) + ") while freshly built objects with these settings run");
          break;
        }
      if ((int)R.snaps.size() != 2 * c.N || F.out.snaps.size() != R.snaps.size())
        {
          ctx.violation("clause=loop;" + hist + cls, kase, "run " + vmc::str((int)i + 1) + " produced " + vmc::str(R.snaps.size()) + " (re-used objects) / " + vmc::str(F.out.snaps.size()) + " (fresh objects) sub-iterations instead of " + vmc::str(2 * c.N));
          break;
        }
      ++runs_done;
      // state = (history so far, k, image)
      {
        const uint64_t hh = vmc::fnv(hprefix);
        if (i > 0 || first_runs_seen.insert(hh).second)
          {
            // (the first run of a history is the run of freshly built objects: where run_cfg has visited that state in this process already it is not counted again)
            const long long before = ctx.counters["distinct_nontrivial"];
            for (size_t k = 0; k < R.snaps.size(); ++k) ctx.nontrivial(vmc::fnv(R.snaps[k].data(), R.snaps[k].size() * sizeof(float), vmc::fnv(vmc::str((int)k), hh)));
            ctx.count("states", ctx.counters["distinct_nontrivial"] - before); // a triple continues a pair: states visited before in this process are not counted again
          }
      }

      // ---------------- the oracle of a run, for the current settings
      {
        uint64_t h = vmc::fnv(cfg_str(c) + ";k0=" + vmc::str(k0) + ";" + hist);
        h = vmc::fnv(init.data(), init.size() * sizeof(float), h);
        for (auto& v : R.snaps) h = vmc::fnv(v.data(), v.size() * sizeof(float), h);
        h = vmc::fnv(R.D_setup.data(), R.D_setup.size() * sizeof(float), h);
        h = vmc::fnv(R.D_end.data(), R.D_end.size() * sizeof(float), vmc::fnv(std::string("e"), h));
        auto it = checked.find(h);
        if (it != checked.end() && it->second) ctx.count(i ? "reuse_later_runs_bitwise_identical_to_a_run_already_checked_with_the_same_settings" : "reuse_first_runs_bitwise_identical_to_a_run_already_checked");
        else
          {
            const long long nv_before = ctx.counters["violating_cases"];
            RefStatic rs;
            const bool built = check_run(ctx, w, m, c, kase, hist, k0, init, R, *b.obj, rs);
            if (checked.size() > 200000) checked.clear();
            checked[h] = built && ctx.counters["violating_cases"] == nv_before;
            if (i) ctx.count("reuse_later_runs_checked_against_formula_and_denominator");
          }
        if (i) ctx.count("reuse_later_runs_satisfying_the_run_oracle_demanded");
      }

      // ---------------- re-used objects == freshly built objects
      if (i > 0)
        {
          if (!R.D_setup.empty() && !F.out.D_setup.empty())
            ctx.count(same_bits(R.D_setup, F.out.D_setup) ? "reuse_denominator_after_set_up_bitwise_equal_to_fresh_objects" : "reuse_denominator_after_set_up_not_bitwise_equal_to_fresh_objects");
          bool bad = false;
          for (size_t k = 0; k < R.snaps.size() && !bad; ++k)
            {
              const std::vector<float>& a = R.snaps[k]; const std::vector<float>& u = F.out.snaps[k];
              if (same_bits(a, u)) { ctx.count("reuse_images_bitwise_equal_to_fresh_objects"); continue; }
              double mx = 0; for (float x : u) mx = std::max(mx, (double)std::fabs(x));
              const double d = max_abs_diff(a, u);
              const double rel = mx > 0 ? d / mx : d;
              if (rel <= 1e-5)
                {
                  ctx.count("reuse_images_equal_to_fresh_objects_within_rounding_only");
                  static bool once = false;
                  if (!once) { once = true; ctx.observe("re-used objects equal to fresh objects only within rounding (relative difference " + vmc::str(rel) + " <= 1e-5), e.g. " + kase); }
                  continue;
                }
              ctx.violation("clause=reuse;kind=images_differ_from_fresh_objects;" + hist + cls + ";den=" + (c.den == 1 ? "one" : c.den == 2 ? "file" : "computed"), kase + ";k=" + vmc::str(k0 + (int)k),
                            "run " + vmc::str((int)i + 1) + " on the re-used objects (after set_up), image after sub-iteration " + vmc::str(k0 + (int)k) + " differs from the one of freshly built objects with the same settings and start image by "
                                + vmc::str(d) + " (max value " + vmc::str(mx) + ")");
              bad = true;
            }
          if (bad) break;
        }
      last = R.snaps.back(); Kprev = Kend;
    }
  if (runs_done >= 2) { ctx.count("evaluations"); ctx.count("reuse_histories"); if (runs_done >= 3) ctx.count("reuse_histories_with_three_runs"); }
  cleanup(prefix, Kmax); cleanup(prefix + "_f", 0);
  if (runs_done == runs.size() && ctx.samples.size() < 8 && runs[1].prior != c0.prior && runs[1].N != c0.N)
    ctx.sample(kase + " : " + vmc::str((int)runs.size()) + " runs on one OSSPSReconstruction/objective function object, every run matches the update formula with the denominator of its own settings and the images of freshly built objects", 8);
}

int main(int argc, char** argv)
{
  vmc::Ctx ctx(argc, argv, "C08");
  small::quiet();
  ctx.rule = "history search: state = (configuration, k, image after sub-iteration k); transition = one real OSSPS update_estimate step or one restart (fresh objective function + "
             "reconstruction object, fresh set_up, start_subiteration_num=k+1); every k is an interruption point; distinct_nontrivial = distinct (configuration, k, image content) reached; "
             "plus histories of 2 (thorough: 3) runs on ONE re-used OSSPSReconstruction/objective function/prior object, all (first run, later run) pairs of run settings over a small alphabet "
             "(prior, subsets, relaxation, upper bound, denominator computed/1/file, start image/continue, data), transition = setters + set_up on the used object, every later run checked against the run oracle of its own settings and against fresh objects";
  ctx.assume("subset used at sub-iteration k is (k-1+start_subset) mod num_subsets (documented order, C06 checks the schedule itself); bins of a subset as defined by find_basic_vs_nums_in_subset + related view/segments");
  ctx.assume("model of the mean: ybar_b = ((G lambda)_b + a_b)/n_b with G the explicit ray-tracing matrix, extracted bin by bin with the symmetry/cache setting of the configuration (sym=1 STIR defaults, sym=0 all off; independence of rows from symmetries is C03), n_b the factors of BinNormalisationFromProjData");
  ctx.assume("tolerance of the update formula: |STIR-ref| <= 2e-4 * (|lambda_j| + zeta N (sum_b G_bj (q_b + 1/n_b) + (|grad R_j| + 2 curv_j max|lambda|)/N) / D_j) + 2e-6 max|ref| : relative to the sum of the magnitudes "
             "of the terms of the update (float projections vs double reference); denominator: 2e-4 relative + 2e-6 max");
  ctx.assume("quotients y/ybar (gradient) and (G 1)/(n^2 y) (approximate Hessian, y=0 included) are capped at 10000 and set to 0 where the numerator is <= 1e-6*max of its viewgram, as documented in divide_and_truncate; "
             "inputs within 0.1% of the cap or a factor 4 of the small-value threshold are screened (counted)");
  ctx.assume("prior gradient and surrogate curvature are taken from the prior's own compute_gradient / parabolic_surrogate_curvature on a separate prior object (subject of C09); what OSSPS does with them (sign, 1/N, factor 2, floor) is checked");
  ctx.assume("zeta_n = alpha/(1+gamma n): the statement does not fix the indexing of n; accepted are n=floor(k/N) and n=floor((k-1)/N) for sub-iteration k (1-based), the same choice at every step of a run");
  ctx.assume("floor of the denominator: max(D, 1e-5 * smallest positive element of D) as documented (threshold_min_to_small_positive_value)");
  ctx.assume("voxels with zero total sensitivity are set to 0 before the update (fill_nonidentifiable_target_parameters): the statement is silent about them; accepted are 'at the first sub-iteration of a run only' (what the code does) and 'at every sub-iteration', the same choice at every step of a run");
  ctx.assume("prior=quadratic_recompute is QuadraticPrior with parabolic_surrogate_curvature_depends_on_argument()=true: same mathematics, exercises the recompute_penalty_term_in_denominator branch");
  ctx.assume("restart equality is bitwise, except: (i) when the resumed run has 'enforce initial positivity' on (not the default) and the saved image contains exact zeros, set_up() lifts them to 1e-5*min positive value as documented: "
             "the run then does not start from the saved iterate and equality is not demanded (counted; the deviation is recorded); (ii) a non-bitwise difference below 1e-5*max is recorded as an observation, not a violation");
  ctx.assume("restart through files: 'initial estimate' of the uninterrupted run is an Interfile image as well, so that all runs of the configuration work on the geometry as read from a header (6 significant digits of the voxel size, C10); formula not checked there");
  ctx.assume("with the inter-iteration filter on only bounds (with 1e-5 relative slack above the upper bound for the rounding of the normalised kernel) and restart are checked");
  ctx.assume("histories on re-used objects: every run is 2 full iterations of its own number of subsets; a later run either starts at sub-iteration 1 from an image pattern or continues from the last image of the previous run with "
             "start_subiteration_num = previous end + 1; between runs only the setters of the settings that change are called (none when nothing changes), then set_up(); the 'precomputed denominator' file of a run is the one "
             "set_up() of a separate fresh object writes for the data of that run; re-used objects must give bitwise the images of freshly built objects (difference below 1e-5*max: observation only); "
             "the run oracle (a deterministic function of settings, start image, iterates and denominators) is evaluated once per distinct input and process");
  if (ctx.replaying())
    {
      if (vmc::kv(ctx.replay).count("reuse")) run_reuse(ctx, reuse_parse(ctx.replay)); else run_cfg(ctx, cfg_parse(ctx.replay));
      return ctx.finish();
    }
  const bool th = ctx.thorough();
  uint64_t unit = 0;
  const int ngeom = th ? NGEOMS : 4;
  auto visit = [&](const Cfg& c) -> bool {
    const uint64_t u = unit++;
    if (!ctx.mine(u)) return true;
    if (ctx.expired()) return false;
    run_cfg(ctx, c);
    return true;
  };
  static const int PRIORS[6] = { 0, 1, 2, 4, 5, 6 };
  for (int g = 0; g < ngeom; ++g)
    {
      const int V = GEOMS[g].D / 2;
      for (int N = 1; N <= V; ++N)
        {
          // geometries 0,1 (tiny): every N; larger ones: every balanced N (divisors of the number of views); thorough: + one unbalanced value (V-1) for geometry 2
          if (g >= 2 && V % N != 0 && !(th && g == 2 && N == V - 1)) continue;
          // a prior without parabolic surrogate must be rejected by set_up()
          { Cfg c; c.g = g; c.N = N; c.prior = 3; if (!visit(c)) return ctx.finish(); }
          for (int add = 0; add < 2; ++add)
            for (int norm = 0; norm < 2; ++norm)
              for (int pi = 0; pi < 6; ++pi)
                for (int data = 0; data < (th && g < 4 ? 3 : 2); ++data)
                  for (int start = (g >= 4 ? 1 : 0); start < 3; ++start) // the two largest geometries (thorough only): labelled start image and image with zeros, data 0/1
                    {
                      Cfg base; base.g = g; base.N = N; base.add = add; base.norm = norm; base.prior = PRIORS[pi]; base.start = start; base.data = data;
                      // (1) the OSSPS parameters: thorough, geometries 0,1 (and 2 with N<=2), labelled start image, data 0/1: full product alpha x gamma x upper bound x denominator;
                      //     otherwise defaults, one option at a time and one combination (quick: the one-at-a-time list only for the labelled start image)
                      if (th && start == 1 && data < 2 && (g <= 1 || (g == 2 && N <= 2)))
                        {
                          for (int al = 0; al < 2; ++al)
                            for (int ga = 0; ga < 3; ++ga)
                              for (int ub = 0; ub < 2; ++ub)
                                for (int den = 0; den < 3; ++den)
                                  { Cfg c = base; c.al = al; c.ga = ga; c.ub = ub; c.den = den; if (!visit(c)) return ctx.finish(); }
                        }
                      else
                        {
                          if (!visit(base)) return ctx.finish();
                          if (th || start == 1)
                            {
                              { Cfg c = base; c.al = 1; if (!visit(c)) return ctx.finish(); }
                              { Cfg c = base; c.ga = 0; if (!visit(c)) return ctx.finish(); }
                              { Cfg c = base; c.ga = 2; if (!visit(c)) return ctx.finish(); }
                              { Cfg c = base; c.ub = 1; if (!visit(c)) return ctx.finish(); }
                              { Cfg c = base; c.den = 1; if (!visit(c)) return ctx.finish(); }
                              { Cfg c = base; c.den = 2; if (!visit(c)) return ctx.finish(); }
                              { Cfg c = base; c.al = 1; c.ga = 2; c.ub = 1; c.den = 1; if (!visit(c)) return ctx.finish(); }
                            }
                        }
                      // (2) options of the framework around the update
                      if (start == 2 || th) { Cfg c = base; c.pos = 1; if (!visit(c)) return ctx.finish(); } // re-thresholding matters for images with zeros
                      if (start == 1)
                        {
                          { Cfg c = base; c.pos = 1; if (!th && !visit(c)) return ctx.finish(); }
                          { Cfg c = base; c.uss = 0; if (N > 1 && !visit(c)) return ctx.finish(); }
                          { Cfg c = base; c.ss = N - 1; if (N > 1 && !visit(c)) return ctx.finish(); }
                          { Cfg c = base; c.sym = 0; if (!visit(c)) return ctx.finish(); }
                          { Cfg c = base; c.iif = 1; c.ub = 1; if (!visit(c)) return ctx.finish(); }
                          if (th) { Cfg c = base; c.pos = 1; c.ub = 1; c.ga = 2; c.ss = N - 1; c.sym = 0; c.den = 2; if (!visit(c)) return ctx.finish(); }
                        }
                      // (3) restart through the files that the reconstruction saves
                      if (th ? (start != 0) : (start == 1 && data == 0)) { Cfg c = base; c.files = 1; c.den = 2; if (!visit(c)) return ctx.finish(); }
                    }
        }
    }
  // ---------------- histories on re-used objects (see run_reuse): all (first run, second run) pairs, thorough: + all triples over a smaller alphabet
  {
    auto visit_reuse = [&](const std::vector<Cfg>& runs) -> bool {
      const uint64_t u = unit++;
      if (!ctx.mine(u)) return true;
      if (ctx.expired()) return false;
      run_reuse(ctx, runs);
      return true;
    };
    struct Par { int al, ga, ub; };
    static const Par PARS[4] = { { 0, 1, 0 }, { 1, 2, 1 }, { 1, 1, 0 }, { 0, 0, 1 } };
    // run settings = prior x N x (alpha, gamma, upper bound) x denominator
    auto alphabet = [&](const Cfg& base, const std::vector<int>& priors, const std::vector<int>& Ns, int npars, const std::vector<int>& dens) {
      std::vector<Cfg> v;
      for (int pr : priors) for (int N : Ns) for (int pa = 0; pa < npars; ++pa) for (int den : dens)
        { Cfg c = base; c.prior = pr; c.N = N; c.al = PARS[pa].al; c.ga = PARS[pa].ga; c.ub = PARS[pa].ub; c.den = den; c.start = 1; v.push_back(c); }
      return v;
    };
    auto pairs = [&](const std::vector<Cfg>& A, const std::vector<int>& starts2, int data2) -> bool {
      for (const Cfg& a : A) for (const Cfg& b0 : A) for (int st : starts2)
        { Cfg b = b0; b.start = st; if (data2 >= 0) b.data = data2; if (!visit_reuse({ a, b })) return false; }
      return true;
    };
    // base 1: 2D geometry with voxels that no LOR sees, additive term, normalisation; base 2: fully identifiable 2D geometry, data with zero-count LORs; base 3: 3 segments
    Cfg b1; b1.g = 0; b1.add = 1; b1.norm = 1; b1.data = 0;
    Cfg b2; b2.g = 1; b2.add = 0; b2.norm = 0; b2.data = 1;
    Cfg b3; b3.g = 2; b3.add = 1; b3.norm = 1; b3.data = 0;
    if (!th)
      {
        if (!pairs(alphabet(b1, { 0, 1, 2, 4, 5 }, { 1, 2 }, 2, { 0, 1, 2 }), { 1, 2, 3 }, -1)) return ctx.finish();
        if (!pairs(alphabet(b2, { 0, 2, 4, 5 }, { 1, 2 }, 1, { 0, 1, 2 }), { 1, 3 }, -1)) return ctx.finish();
      }
    else
      {
        if (!pairs(alphabet(b1, { 0, 1, 2, 4, 5, 6 }, { 1, 2, 4 }, 4, { 0, 1, 2 }), { 1, 3 }, -1)) return ctx.finish();
        if (!pairs(alphabet(b1, { 0, 1, 2, 4, 5 }, { 1, 2 }, 2, { 0, 1, 2 }), { 0, 2 }, -1)) return ctx.finish();
        if (!pairs(alphabet(b2, { 0, 1, 2, 4, 5 }, { 1, 2 }, 2, { 0, 1, 2 }), { 1, 2, 3 }, -1)) return ctx.finish();
        { Cfg bp = b1; bp.pos = 1; if (!pairs(alphabet(bp, { 0, 2, 4, 5 }, { 1, 2 }, 1, { 0, 1, 2 }), { 2, 3 }, -1)) return ctx.finish(); }
      }
    // other data between the runs (set_input_data on the used object), both directions
    for (int d = 0; d < 2; ++d)
      { Cfg bd = b1; bd.data = d; if (!pairs(alphabet(bd, { 0, 2, 5 }, { 1, 2 }, 1, { 0, 1, 2 }), { 1, 3 }, 1 - d)) return ctx.finish(); }
    // 3 segments
    if (!pairs(alphabet(b3, th ? std::vector<int>{ 0, 1, 2, 4, 5 } : std::vector<int>{ 0, 2, 4 }, th ? std::vector<int>{ 1, 2, 3 } : std::vector<int>{ 1, 3 }, 1, th ? std::vector<int>{ 0, 1, 2 } : std::vector<int>{ 0, 1 }), { 1, 3 }, -1)) return ctx.finish();
    if (th)
      { // three runs
        const std::vector<Cfg> T = alphabet(b1, { 0, 2, 4, 5 }, { 1, 2 }, 1, { 0, 1, 2 });
        static const int ST[3][2] = { { 1, 1 }, { 2, 3 }, { 3, 3 } };
        for (const Cfg& a : T) for (const Cfg& b0 : T) for (const Cfg& c0 : T) for (int si = 0; si < 3; ++si)
          { Cfg b = b0, c = c0; b.start = ST[si][0]; c.start = ST[si][1]; if (!visit_reuse({ a, b, c })) return ctx.finish(); }
        ctx.maxi("runs_on_one_reused_object", 3);
      }
    ctx.maxi("runs_on_one_reused_object", 2);
  }
  ctx.maxi("geometries", ngeom);
  ctx.maxi("full_iterations_per_run", 3);
  return ctx.finish();
}
