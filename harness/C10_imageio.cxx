// C10 - image files round-trip voxel positions, values and exam information; truncated data files are errors.
//
// Shape E + F (bounded-exhaustive configuration x input enumeration, plus fault enumeration):
//   every case = (container, NumericType, ByteOrder, scale setting, index range, origin, voxel size, value set, exam info,
//                 [truncation length]) is executed on the real STIR code:
//        OutputFileFormat<...>::write_to_file  ->  files in ctx.tmpdir  ->  read_from_file<...>()
//   and compared with the image that was written (the reference model is the written image itself plus a 30-line
//   decoder of the raw data file).
//   containers: single  VoxelsOnCartesianGrid<float> via InterfileOutputFileFormat
//               dyn     DynamicDiscretisedDensity (1-3 frames) via InterfileDynamicDiscretisedDensityOutputFileFormat
//               multi   DynamicDiscretisedDensity via MultiDynamicDiscretisedDensityOutputFileFormat (individual = Interfile)
//               par     ParametricVoxelsOnCartesianGrid via InterfileParametricDiscretisedDensityOutputFileFormat
//               mpar    ParametricVoxelsOnCartesianGrid via MultiParametricDiscretisedDensityOutputFileFormat
//   F: the data file is truncated to a given length (every length for small images, strided + slice boundaries for larger)
//      and read again: the result must be an error (exception / null), never an image.
#include "vmc.h"
#include "stir_small.h"
#include "stir/IO/InterfileOutputFileFormat.h"
#include "stir/IO/InterfileDynamicDiscretisedDensityOutputFileFormat.h"
#include "stir/IO/InterfileParametricDiscretisedDensityOutputFileFormat.h"
#include "stir/IO/MultiDynamicDiscretisedDensityOutputFileFormat.h"
#include "stir/IO/MultiParametricDiscretisedDensityOutputFileFormat.h"
#include "stir/IO/read_from_file.h"
#include "stir/DynamicDiscretisedDensity.h"
#include "stir/modelling/ParametricDiscretisedDensity.h"
#include "stir/modelling/KineticParameters.h"
#include "stir/RadionuclideDB.h"
#include "stir/NumericType.h"
#include "stir/ByteOrder.h"
#include <sys/stat.h>
#include <limits>

using namespace stir;

// ------------------------------------------------------------------------------------------------ alphabets
static const NumericType::Type TYPES[] = { NumericType::SCHAR, NumericType::UCHAR, NumericType::SHORT, NumericType::USHORT,
                                           NumericType::INT,   NumericType::UINT,  NumericType::LONG,  NumericType::ULONG,
                                           NumericType::FLOAT, NumericType::DOUBLE, NumericType::BIT };
static const char* TYPE_NAMES[] = { "SCHAR", "UCHAR", "SHORT", "USHORT", "INT", "UINT", "LONG", "ULONG", "FLOAT", "DOUBLE", "BIT" };
static const int NTYPES = 11;
static const float SCALES[] = { 0.F, 1.F, 0.5F };
static const int MINS[] = { -3, 0, 2 };
static const int SIZES[] = { 1, 2, 5, 12 };
static const float ORGV[] = { 0.F, 7.5F, -7.5F, 3.125F };
static const float VOXV[] = { 1.F, 2.5F, 0.625F, 2.05941F };
// origin / voxel-size patterns: index p -> per-axis alphabet members (all different per axis except pattern 0)
static void pattern(int p, const float* alpha, float out[3])
{
  // p in 0..15: every alphabet member appears on every axis; the axes get different members except for p==0
  const int a = p % 4, b = p / 4;
  out[0] = alpha[a];
  out[1] = alpha[(a + b) % 4];
  out[2] = alpha[(a + 3 * b + (p > 0 ? 2 : 0)) % 4];
}
static const int NVALSETS = 7;
static const char* VALNAMES[] = { "labelling", "all_zero", "mixed_sign", "extreme_1e30_1e-30", "ramp", "all_negative", "tiny_only" };

struct Case
{
  std::string cont = "single";
  int T = 8, bo = 0, sc = 0;
  int mn[3] = { 0, 0, 0 }, sz[3] = { 1, 1, 1 };
  int og = 0, vx = 0, val = 0;
  int ex[7] = { 0, 3, 5, 0, 0, 0, 0 }; // modality, orientation, rotation, time frame, radionuclide, energy window, calibration
  int nf = 1;
  long trunc = -1;
  std::string str() const
  {
    std::ostringstream o;
    o << "cont=" << cont << ";T=" << TYPE_NAMES[T] << ";bo=" << bo << ";sc=" << sc << ";mn=" << mn[0] << "," << mn[1] << "," << mn[2] << ";sz=" << sz[0]
      << "," << sz[1] << "," << sz[2] << ";og=" << og << ";vx=" << vx << ";val=" << val << ";ex=" << ex[0] << "," << ex[1] << "," << ex[2] << ","
      << ex[3] << "," << ex[4] << "," << ex[5] << "," << ex[6] << ";nf=" << nf << ";trunc=" << trunc;
    return o.str();
  }
  static Case parse(const std::string& s)
  {
    Case c;
    auto m = vmc::kv(s);
    c.cont = m["cont"];
    for (int i = 0; i < NTYPES; ++i) if (m["T"] == TYPE_NAMES[i]) c.T = i;
    c.bo = atoi(m["bo"].c_str()); c.sc = atoi(m["sc"].c_str());
    auto a = vmc::ints(m["mn"]); auto b = vmc::ints(m["sz"]); auto e = vmc::ints(m["ex"]);
    for (int i = 0; i < 3; ++i) { c.mn[i] = a[i]; c.sz[i] = b[i]; }
    for (int i = 0; i < 7; ++i) c.ex[i] = e[i];
    c.og = atoi(m["og"].c_str()); c.vx = atoi(m["vx"].c_str()); c.val = atoi(m["val"].c_str());
    c.nf = atoi(m["nf"].c_str()); c.trunc = atol(m["trunc"].c_str());
    return c;
  }
};

static float value_of(int val, long idx, int frame)
{
  switch (val)
    {
    case 0: return float(1 + idx + 2000 * frame);
    case 1: return 0.F;
    case 2: return ((idx + frame) % 2 ? -1.F : 1.F) * float(idx + 1) * 0.25F;
    case 3: { static const float e[] = { 1e30F, -1e30F, 1e-30F, 0.F, -1e-30F, 1.F }; return e[(idx + frame) % 6]; }
    case 4: return 0.37F * float(idx) - 5.5F + 100.F * frame;
    case 5: return -float(idx + 1) * 0.5F - frame;
    case 6: return 1e-30F * float(idx + 1 + frame);
    }
  return 0.F;
}

// ------------------------------------------------------------------------------------------------ helpers
static std::string slurp(const std::string& f)
{
  std::ifstream in(f, std::ios::binary);
  std::ostringstream o; o << in.rdbuf();
  return o.str();
}
static long file_size(const std::string& f)
{
  struct stat st;
  if (stat(f.c_str(), &st) != 0) return -1;
  return (long)st.st_size;
}
static std::string std_key(const std::string& k)
{
  std::string o;
  for (char c : k) { if (c == ' ' || c == '\t' || c == '!' || c == '_') continue; o += (char)tolower(c); }
  return o;
}
// the header text as key -> value (keys standardised: lower case, no blanks/!/_ ; index kept as written without blanks)
static std::map<std::string, std::string> header_map(const std::string& text)
{
  std::map<std::string, std::string> m;
  std::istringstream in(text);
  std::string line;
  while (std::getline(in, line))
    {
      auto p = line.find(":=");
      if (p == std::string::npos) continue;
      std::string v = line.substr(p + 2);
      while (!v.empty() && (v[0] == ' ' || v[0] == '\t')) v.erase(0, 1);
      while (!v.empty() && (v.back() == ' ' || v.back() == '\t' || v.back() == '\r')) v.pop_back();
      m[std_key(line.substr(0, p))] = v;
    }
  return m;
}
static double decode(const unsigned char* p, int T, bool big)
{
  unsigned char b[8];
  const int n = (int)NumericType(TYPES[T]).size_in_bytes();
  for (int i = 0; i < n; ++i) b[i] = big ? p[n - 1 - i] : p[i]; // -> little endian (host)
  switch (TYPES[T])
    {
    case NumericType::SCHAR: { signed char v; memcpy(&v, b, 1); return v; }
    case NumericType::UCHAR: { unsigned char v; memcpy(&v, b, 1); return v; }
    case NumericType::SHORT: { short v; memcpy(&v, b, 2); return v; }
    case NumericType::USHORT: { unsigned short v; memcpy(&v, b, 2); return v; }
    case NumericType::INT: { int v; memcpy(&v, b, 4); return v; }
    case NumericType::UINT: { unsigned v; memcpy(&v, b, 4); return v; }
    case NumericType::LONG: { long v; memcpy(&v, b, 8); return (double)v; }
    case NumericType::ULONG: { unsigned long v; memcpy(&v, b, 8); return (double)v; }
    case NumericType::FLOAT: { float v; memcpy(&v, b, 4); return v; }
    case NumericType::DOUBLE: { double v; memcpy(&v, b, 8); return v; }
    default: return 0;
    }
}
static void type_range(int T, double& lo, double& hi)
{
  switch (TYPES[T])
    {
    case NumericType::SCHAR: lo = -128; hi = 127; break;
    case NumericType::UCHAR: lo = 0; hi = 255; break;
    case NumericType::SHORT: lo = -32768; hi = 32767; break;
    case NumericType::USHORT: lo = 0; hi = 65535; break;
    case NumericType::INT: lo = -2147483648.0; hi = 2147483647.0; break;
    case NumericType::UINT: lo = 0; hi = 4294967295.0; break;
    case NumericType::LONG: lo = -9223372036854775808.0; hi = 9223372036854775807.0; break;
    case NumericType::ULONG: lo = 0; hi = 18446744073709551615.0; break;
    default: lo = -1e300; hi = 1e300;
    }
}
static bool is_int_type(int T) { return T < 8; }
static bool is_unsigned_type(int T) { return T < 8 && (T % 2) == 1; }

static const double EPSF = 1.1920929e-7;

struct Built
{
  shared_ptr<ExamInfo> exam;
  std::vector<shared_ptr<VoxelsOnCartesianGrid<float>>> frames;
};

static shared_ptr<ExamInfo> make_exam(const Case& c, int frame /*0-based, for single images*/)
{
  shared_ptr<ExamInfo> e(new ExamInfo);
  e->imaging_modality = c.ex[0] == 0 ? ImagingModality::PT : c.ex[0] == 1 ? ImagingModality::NM : ImagingModality::Unknown;
  e->patient_position = PatientPosition((PatientPosition::OrientationValue)c.ex[1], (PatientPosition::RotationValue)c.ex[2]);
  if (c.ex[3] == 1) { e->time_frame_definitions.set_num_time_frames(1); e->time_frame_definitions.set_time_frame(1, 0. + 20 * frame, 1. + 20 * frame); }
  if (c.ex[3] == 2) { e->time_frame_definitions.set_num_time_frames(1); e->time_frame_definitions.set_time_frame(1, 10.5 + 20 * frame, 13.75 + 20 * frame); }
  if (c.ex[4] == 1)
    {
      RadionuclideDB db;
      e->set_radionuclide(db.get_radionuclide(e->imaging_modality, c.ex[0] == 1 ? "^99m^Technetium" : "^18^Fluorine"));
    }
  if (c.ex[4] == 2) e->set_radionuclide(Radionuclide("Xx-1", c.ex[0] == 1 ? -1.F : 511.F, 0.75F, 123.5F, e->imaging_modality));
  if (c.ex[5] == 1) { e->set_low_energy_thres(350.F); e->set_high_energy_thres(650.F); }
  if (c.ex[5] == 2) { e->set_low_energy_thres(0.F); e->set_high_energy_thres(650.F); }
  if (c.ex[6] == 1) e->set_calibration_factor(1.F);
  if (c.ex[6] == 2) e->set_calibration_factor(0.0025F);
  return e;
}

static shared_ptr<VoxelsOnCartesianGrid<float>> make_frame(const Case& c, int frame, const shared_ptr<ExamInfo>& e)
{
  float og[3], vx[3];
  pattern(c.og, ORGV, og); pattern(c.vx, VOXV, vx);
  shared_ptr<VoxelsOnCartesianGrid<float>> im(new VoxelsOnCartesianGrid<float>(
      e, IndexRange3D(c.mn[0], c.mn[0] + c.sz[0] - 1, c.mn[1], c.mn[1] + c.sz[1] - 1, c.mn[2], c.mn[2] + c.sz[2] - 1),
      CartesianCoordinate3D<float>(og[0], og[1], og[2]), CartesianCoordinate3D<float>(vx[0], vx[1], vx[2])));
  long idx = 0;
  for (int z = im->get_min_z(); z <= im->get_max_z(); ++z)
    for (int y = im->get_min_y(); y <= im->get_max_y(); ++y)
      for (int x = im->get_min_x(); x <= im->get_max_x(); ++x) (*im)[z][y][x] = value_of(c.val, idx++, frame);
  return im;
}

struct Fail
{
  std::string key, msg;
  bool bad() const { return !key.empty(); }
  void set(const std::string& k, const std::string& m) { if (key.empty()) { key = k; msg = m; } }
};

// ------------------------------------------------------------------------------------------------ comparison of one frame
// written image w, read image r, raw data (may be null), header scale s, offset in data
static void compare_frame(vmc::Ctx& ctx, const Case& c, const std::string& tag, const VoxelsOnCartesianGrid<float>& w,
                          const VoxelsOnCartesianGrid<float>& r, const std::string* raw, long offset, double s, bool have_scale, bool big, Fail& f)
{
  const std::string kt = std::string("T=") + TYPE_NAMES[c.T];
  // sizes
  if (w.get_z_size() != r.get_z_size() || w.get_y_size() != r.get_y_size() || w.get_x_size() != r.get_x_size())
    {
      f.set("clause=size;" + kt, tag + " sizes differ: written " + vmc::str(w.get_z_size()) + "x" + vmc::str(w.get_y_size()) + "x" + vmc::str(w.get_x_size())
                                      + " read " + vmc::str(r.get_z_size()) + "x" + vmc::str(r.get_y_size()) + "x" + vmc::str(r.get_x_size()));
      return;
    }
  const int dz = r.get_min_z() - w.get_min_z(), dy = r.get_min_y() - w.get_min_y(), dx = r.get_min_x() - w.get_min_x();
  // positions: tolerance per axis = 6e-6*(|first pixel offset| + extent) (6 significant decimal digits of the header text) + float rounding
  const auto vs = w.get_grid_spacing();
  const auto p0 = w.get_physical_coordinates_for_indices(w.get_min_indices());
  const auto p1 = w.get_physical_coordinates_for_indices(w.get_max_indices());
  double tol[4];
  for (int a = 1; a <= 3; ++a) tol[a] = 6e-6 * (std::fabs(p0[a]) + std::fabs(p1[a] - p0[a])) + 8 * EPSF * (std::fabs(p0[a]) + std::fabs(p1[a]) + std::fabs(w.get_origin()[a])) + 1e-30;
  double lo, hi; type_range(c.T, lo, hi);
  const int nb = (int)NumericType(TYPES[c.T]).size_in_bytes();
  long idx = 0;
  for (int z = w.get_min_z(); z <= w.get_max_z(); ++z)
    for (int y = w.get_min_y(); y <= w.get_max_y(); ++y)
      for (int x = w.get_min_x(); x <= w.get_max_x(); ++x, ++idx)
        {
          const BasicCoordinate<3, int> iw = make_coordinate(z, y, x), ir = make_coordinate(z + dz, y + dy, x + dx);
          const auto pw = w.get_physical_coordinates_for_indices(iw);
          const auto pr = r.get_physical_coordinates_for_indices(ir);
          for (int a = 1; a <= 3; ++a)
            if (!(std::fabs(double(pw[a]) - double(pr[a])) <= tol[a]))
              {
                f.set("clause=position;axis=" + std::to_string(a) + ";cont=" + c.cont,
                      tag + " voxel (" + vmc::str(z) + "," + vmc::str(y) + "," + vmc::str(x) + ") written at physical " + vmc::str(pw[1]) + "," + vmc::str(pw[2]) + ","
                          + vmc::str(pw[3]) + " but read back at " + vmc::str(pr[1]) + "," + vmc::str(pr[2]) + "," + vmc::str(pr[3]) + " (tol " + vmc::str(tol[a]) + ")");
                return;
              }
          const double v = w[z][y][x], v2 = r[z + dz][y + dy][x + dx];
          if (!is_int_type(c.T))
            {
              if (!(v == v2))
                {
                  f.set(std::string("clause=value_float_exact;cause=") + (s == 0 && v != 0 ? "scale_underflow_to_zero;" : "other;") + kt, tag + " voxel #" + vmc::str(idx) + " written " + vmc::str(v) + " read " + vmc::str(v2) + " (floating-point output must be exact); header scale " + vmc::str(s));
                  return;
                }
              continue;
            }
          // scaled integer output
          const bool neg_unsigned = is_unsigned_type(c.T) && v < 0;
          double q = 0;
          bool have_q = false;
          if (raw && have_scale && (long)raw->size() >= offset + (idx + 1) * nb)
            {
              q = decode(reinterpret_cast<const unsigned char*>(raw->data()) + offset + idx * nb, c.T, big);
              have_q = true;
            }
          if (neg_unsigned)
            {
              ctx.count("voxels_negative_in_unsigned_type_screened");
              if (have_q && q != 0) { f.set("clause=negative_not_clipped;" + kt, tag + " voxel #" + vmc::str(idx) + " value " + vmc::str(v) + " stored as " + vmc::str(q) + " in unsigned type (documented: truncated to 0)"); return; }
              continue;
            }
          ctx.count("voxels_checked_quantisation");
          const double b1 = std::fabs(s) / 2 * (1 + 1e-6) + 8 * EPSF * std::fabs(v);
          const double b2 = b1 + 5.1e-6 * std::fabs(v);
          const double err = std::fabs(v2 - v);
          if (have_q)
            {
              // what is in the file must reproduce what was read (reader side)
              const double fromfile = q * s;
              if (!(std::fabs(fromfile - v2) <= 8 * EPSF * std::fabs(fromfile) + 1e-44))
                { f.set("clause=read_differs_from_file;" + kt, tag + " voxel #" + vmc::str(idx) + " stored integer " + vmc::str(q) + " x scale " + vmc::str(s) + " = " + vmc::str(fromfile) + " but read value is " + vmc::str(v2)); return; }
            }
          if (!(err <= b1))
            {
              std::string cause;
              const double ideal = s != 0 ? v / s : 0;
              if (s == 0 && v != 0) cause = "scale_underflow_to_zero";
              else if (s != 0 && (ideal < lo - 0.5 || ideal > hi + 0.5)) cause = "scale_too_small_for_type";
              else if (std::fabs(s) < 1.17549435e-38) cause = "scale_denormal"; // scale factor below FLT_MIN (tiny data): 1/scale overflows in the -ffast-math build of STIR
              else if (have_q && std::fabs(q - ideal) > 1 + (16 * EPSF + 5.1e-6) * std::fabs(ideal)) // ideal uses the header text of the scale (6 digits)
                cause = std::string("stored_integer_wrong;ideal_beyond_int32=") + (std::fabs(ideal) >= 2147483647.0 ? "1" : "0");
              else if (err <= b2) cause = "scale_factor_text_6_digits";
              else cause = "quantisation";
              f.set("clause=value_int;cause=" + cause + ";" + kt,
                    tag + " voxel #" + vmc::str(idx) + " written " + vmc::str(v) + " read " + vmc::str(v2) + " |diff| " + vmc::str(err) + " > half step " + vmc::str(b1) + " (header scale "
                        + vmc::str(s) + (have_q ? ", stored integer " + vmc::str(q) : std::string()) + ", ideal " + vmc::str(ideal) + ", type range " + vmc::str(lo) + ".." + vmc::str(hi) + ")");
              return;
            }
        }
}

static bool near6(double a, double b) { return std::fabs(a - b) <= 6e-6 * std::max(std::fabs(a), std::fabs(b)) + 1e-30; }

static void compare_exam(vmc::Ctx& ctx, const Case& c, const std::string& tag, const ExamInfo& w, const ExamInfo& r, bool check_frames, Fail& f)
{
  const std::string kc = ";cont=" + c.cont;
  if (w.imaging_modality.get_modality() != r.imaging_modality.get_modality())
    { f.set("clause=exam;field=modality" + kc, tag + " modality written " + w.imaging_modality.get_name() + " read " + r.imaging_modality.get_name()); return; }
  if (w.patient_position.get_orientation() != r.patient_position.get_orientation())
    { f.set("clause=exam;field=patient_orientation" + kc, tag + " orientation written " + vmc::str((int)w.patient_position.get_orientation()) + " read " + vmc::str((int)r.patient_position.get_orientation())); return; }
  {
    const auto rw = w.patient_position.get_rotation(), rr = r.patient_position.get_rotation();
    if (rw != rr)
      {
        if ((rw == PatientPosition::left || rw == PatientPosition::right) && rr == PatientPosition::other_rotation)
          {
            ctx.count("patient_rotation_left_right_read_back_as_other");
            ctx.observe("patient rotation left/right is written as 'other' by write_interfile_patient_position (reader knows left/right): lossy but deliberate in the writer; not counted as a violation");
          }
        else
          { f.set("clause=exam;field=patient_rotation" + kc, tag + " rotation written " + vmc::str((int)rw) + " read " + vmc::str((int)rr)); return; }
      }
  }
  if (check_frames)
    {
      const auto& tw = w.time_frame_definitions; const auto& tr = r.time_frame_definitions;
      if (tw.get_num_frames() > 0)
        {
          if (tw.get_num_frames() != tr.get_num_frames())
            { f.set("clause=exam;field=num_time_frames" + kc, tag + " frames written " + vmc::str(tw.get_num_frames()) + " read " + vmc::str(tr.get_num_frames())); return; }
          for (unsigned i = 1; i <= tw.get_num_frames(); ++i)
            if (!near6(tw.get_start_time(i), tr.get_start_time(i)) || !near6(tw.get_end_time(i), tr.get_end_time(i)))
              { f.set("clause=exam;field=time_frame" + kc, tag + " frame " + vmc::str(i) + " written " + vmc::str(tw.get_start_time(i)) + ".." + vmc::str(tw.get_end_time(i)) + " read " + vmc::str(tr.get_start_time(i)) + ".." + vmc::str(tr.get_end_time(i))); return; }
        }
    }
  // radionuclide
  {
    const Radionuclide a = w.get_radionuclide(), b = r.get_radionuclide();
    if (!a.get_name().empty() && a.get_name() != "Unknown")
      {
        if (a.get_name() != b.get_name())
          { f.set("clause=exam;field=radionuclide_name" + kc, tag + " radionuclide written '" + a.get_name() + "' read '" + b.get_name() + "'"); return; }
        if (a.get_half_life(false) > 0 && !near6(a.get_half_life(false), b.get_half_life(false)))
          { f.set("clause=exam;field=radionuclide_half_life" + kc, tag + " half life written " + vmc::str(a.get_half_life(false)) + " read " + vmc::str(b.get_half_life(false))); return; }
        if (a.get_branching_ratio(false) > 0 && !near6(a.get_branching_ratio(false), b.get_branching_ratio(false)))
          { f.set("clause=exam;field=radionuclide_branching" + kc, tag + " branching ratio written " + vmc::str(a.get_branching_ratio(false)) + " read " + vmc::str(b.get_branching_ratio(false))); return; }
      }
  }
  // energy window: written by write_interfile_energy_windows iff high>0 && low>=0
  if (w.get_high_energy_thres() > 0 && w.get_low_energy_thres() >= 0)
    {
      if (!near6(w.get_high_energy_thres(), r.get_high_energy_thres()) || !near6(w.get_low_energy_thres(), r.get_low_energy_thres()))
        {
          f.set(std::string("clause=exam;field=energy_window;low_is_zero=") + (w.get_low_energy_thres() == 0 ? "1" : "0") + kc,
                tag + " energy window written " + vmc::str(w.get_low_energy_thres()) + ".." + vmc::str(w.get_high_energy_thres()) + " read " + vmc::str(r.get_low_energy_thres()) + ".." + vmc::str(r.get_high_energy_thres()));
          return;
        }
    }
  if (w.get_calibration_factor() > 0 && !near6(w.get_calibration_factor(), r.get_calibration_factor()))
    { f.set("clause=exam;field=calibration_factor" + kc, tag + " calibration factor written " + vmc::str(w.get_calibration_factor()) + " read " + vmc::str(r.get_calibration_factor())); return; }
}

// ------------------------------------------------------------------------------------------------ one case
static long g_serial = 0;

// returns list of truncation lengths to try for a data file of given size (slice = bytes per z-slice)
static std::vector<long> trunc_lengths(long size, long slice, bool every)
{
  std::vector<long> v;
  if (every) { for (long l = 0; l < size; ++l) v.push_back(l); return v; }
  std::set<long> s;
  for (int k = 0; k < 64; ++k) s.insert(size * k / 64);
  for (long b = 0; b <= size; b += slice) for (long d = -8; d <= 8; ++d) if (b + d >= 0 && b + d < size) s.insert(b + d);
  v.assign(s.begin(), s.end());
  return v;
}

static void remove_case_files(const std::string& base, int nframes)
{
  for (const char* e : { ".hv", ".v", ".ahv", ".txt" }) ::unlink((base + e).c_str());
  for (int k = 1; k <= nframes; ++k)
    for (const char* e : { ".hv", ".v", ".ahv" }) ::unlink((base + "_" + std::to_string(k) + e).c_str());
}

// Executes the case. If c.trunc == -2: after the round trip, run the truncation sweep (F part) over lengths chosen by `every`.
static void run_case(vmc::Ctx& ctx, const Case& c, int sweep /*0 none, 1 strided, 2 every*/)
{
  const std::string cs = c.str();
  ctx.current(std::string("cont=") + c.cont + ";T=" + TYPE_NAMES[c.T], cs + (sweep ? ";sweep=" + std::to_string(sweep) : ""));
  ctx.count("evaluations");
  const std::string prefix = "c10_s" + std::to_string(ctx.shard) + "_" + std::to_string(g_serial++) + "_";
  const std::string base = ctx.tmpdir + "/" + prefix + "img";
  Fail f;
  const NumericType nt(TYPES[c.T]);
  const ByteOrder bo = c.bo == 0 ? ByteOrder::little_endian : ByteOrder::big_endian;
  const bool dyn = c.cont == "dyn" || c.cont == "multi", par = c.cont == "par" || c.cont == "mpar";
  const int nframes = par ? 2 : dyn ? c.nf : 1;

  // ---- build
  std::vector<shared_ptr<VoxelsOnCartesianGrid<float>>> frames;
  shared_ptr<ExamInfo> container_exam;
  for (int k = 0; k < nframes; ++k) frames.push_back(make_frame(c, k, make_exam(c, k)));
  shared_ptr<DynamicDiscretisedDensity> dyn_im;
  shared_ptr<ParametricVoxelsOnCartesianGrid> par_im;
  if (dyn)
    {
      Case c1 = c;
      TimeFrameDefinitions tdefs;
      tdefs.set_num_time_frames(nframes);
      for (int k = 0; k < nframes; ++k)
        tdefs.set_time_frame(k + 1, frames[k]->get_exam_info().time_frame_definitions.get_start_time(1), frames[k]->get_exam_info().time_frame_definitions.get_end_time(1));
      shared_ptr<Scanner> sc(new Scanner(Scanner::E953));
      shared_ptr<DiscretisedDensity<3, float>> templ(frames[0]->clone());
      dyn_im.reset(new DynamicDiscretisedDensity(tdefs, 0., sc, templ));
      // exam info of the container: that of the first frame with all the time frames
      ExamInfo e = frames[0]->get_exam_info();
      e.time_frame_definitions = tdefs;
      e.originating_system = sc->get_name();
      dyn_im->set_exam_info(e);
      for (int k = 0; k < nframes; ++k) dyn_im->set_density(*frames[k], k + 1);
    }
  if (par)
    {
      par_im.reset(new ParametricVoxelsOnCartesianGrid(*frames[0]));
      for (int k = 0; k < 2; ++k) par_im->update_parametric_image(*frames[k], k + 1);
      par_im->set_exam_info(frames[0]->get_exam_info());
    }

  // frames whose values are all <= 0 (some < 0) written to an unsigned type: find_scale_factor yields a negative scale
  // (per frame: a failure is attributed to this only if it occurs in such a frame, or if the file cannot be read at all)
  bool allneg_unsigned = false;
  std::vector<char> frame_allneg(nframes, 0);
  if (is_unsigned_type(c.T) && !par)
    for (int k = 0; k < nframes; ++k) { const float mx = frames[k]->find_max(), mi = frames[k]->find_min(); if (mx <= 0 && mi < 0) frame_allneg[k] = 1; }
  if (par && is_unsigned_type(c.T)) for (int k = 1; k <= 2; ++k) { auto d = par_im->construct_single_density(k); if (d.find_max() <= 0 && d.find_min() < 0) frame_allneg[k - 1] = 1; }
  for (char a : frame_allneg) if (a) allneg_unsigned = true;
  if (allneg_unsigned) ctx.count("cases_with_all_negative_frame_into_unsigned_type");

  // ---- scale setting: 0 automatic, 1, 0.5, or (sc == 3, integer types) the SMALLEST float scale that still fits the data into the type
  //      (max|v| / type_max rounded up to float): legal for the caller, and the case where a lost safety margin overflows the type
  float scale_setting = c.sc < 3 ? SCALES[c.sc] : 0.F;
  if (c.sc == 3)
    {
      double lo_t, hi_t; type_range(c.T, lo_t, hi_t);
      double need = 0;
      auto upd = [&](const VoxelsOnCartesianGrid<float>& im) {
        const double mx = im.find_max(), mn = im.find_min();
        if (mx > 0) need = std::max(need, mx / hi_t);
        if (mn < 0 && lo_t < 0) need = std::max(need, mn / lo_t);
      };
      for (auto& fr : frames) upd(*fr);
      if (par) for (int k = 1; k <= 2; ++k) upd(par_im->construct_single_density(k));
      float fs = (float)need;
      if ((double)fs < need) fs = std::nextafterf(fs, std::numeric_limits<float>::infinity());
      if (!(fs > 0)) { ctx.count("just_fitting_scale_not_applicable"); return; }
      scale_setting = fs;
      ctx.count("cases_with_just_fitting_scale");
    }

  // ---- write
  std::string filename = base;
  Succeeded ok = Succeeded::no;
  std::string what;
  const bool threw = small::throws(
      [&] {
        if (c.cont == "single")
          {
            InterfileOutputFileFormat fmt(nt, bo);
            fmt.set_scale_to_write_data(scale_setting);
            ok = fmt.write_to_file(filename, *frames[0]);
          }
        else if (c.cont == "dyn")
          {
            InterfileDynamicDiscretisedDensityOutputFileFormat fmt(nt, bo);
            fmt.set_scale_to_write_data(scale_setting);
            ok = fmt.write_to_file(filename, *dyn_im);
          }
        else if (c.cont == "multi")
          {
            MultiDynamicDiscretisedDensityOutputFileFormat fmt;
            shared_ptr<InterfileOutputFileFormat> ind(new InterfileOutputFileFormat(nt, bo));
            ind->set_scale_to_write_data(scale_setting);
            fmt.individual_output_type_sptr = ind;
            ok = fmt.write_to_file(filename, *dyn_im);
          }
        else if (c.cont == "par")
          {
            InterfileParametricDiscretisedDensityOutputFileFormat<ParametricVoxelsOnCartesianGridBaseType> fmt(nt, bo);
            fmt.set_scale_to_write_data(scale_setting);
            ok = fmt.write_to_file(filename, *par_im);
          }
        else
          {
            MultiParametricDiscretisedDensityOutputFileFormat<ParametricVoxelsOnCartesianGridBaseType> fmt;
            shared_ptr<InterfileOutputFileFormat> ind(new InterfileOutputFileFormat(nt, bo));
            ind->set_scale_to_write_data(scale_setting);
            fmt.individual_output_type_sptr = ind;
            ok = fmt.write_to_file(filename, *par_im);
          }
      },
      &what);
  const bool unsupported_type = TYPES[c.T] == NumericType::BIT;
  // the byte order actually used (dynamic/parametric Interfile formats force native order)
  bool big = c.bo == 1;
  if (c.cont == "dyn" || c.cont == "par") big = false;
  auto cleanup = [&] { if (!ctx.replaying()) remove_case_files(base, nframes); };
  if (threw || ok != Succeeded::yes)
    {
      ctx.count("rejected_configs");
      ctx.count(std::string("rejected_at_write;T=") + TYPE_NAMES[c.T]);
      cleanup();
      return;
    }

  // ---- read back
  shared_ptr<DiscretisedDensity<3, float>> rs;
  shared_ptr<DynamicDiscretisedDensity> rd;
  shared_ptr<ParametricVoxelsOnCartesianGrid> rp;
  auto read_it = [&](std::string* w) {
    rs.reset(); rd.reset(); rp.reset();
    return small::throws(
        [&] {
          if (c.cont == "single") rs = read_from_file<DiscretisedDensity<3, float>>(filename);
          else if (dyn) rd = read_from_file<DynamicDiscretisedDensity>(filename);
          else rp = read_from_file<ParametricVoxelsOnCartesianGrid>(filename);
        },
        w);
  };
  std::string rwhat;
  const bool rthrew = read_it(&rwhat);
  const bool got = rs || rd || rp;
  const std::string kt = std::string("cont=") + c.cont + ";T=" + TYPE_NAMES[c.T];
  const std::string kneg = std::string("clause=all_negative_frame_into_unsigned_type;cont=") + c.cont + ";effect=";
  if (rthrew || !got)
    {
      if (unsupported_type) { ctx.count("rejected_configs"); ctx.count("unsupported_type_rejected_at_read"); cleanup(); return; }
      if (allneg_unsigned)
        {
          ctx.violation(kneg + "write_says_yes_but_file_unreadable", cs, "a frame with only negative values written to an unsigned type: write_to_file returned Succeeded::yes but the file cannot be read back: " + rwhat);
          cleanup();
          return;
        }
      ctx.violation("clause=read_back_fails;" + kt, cs, "file written with Succeeded::yes cannot be read back: " + rwhat);
      cleanup();
      return;
    }

  // ---- locate data files, scales and offsets from the header text (harness-side reader)
  struct Part { std::string data_file; long offset = 0; double scale = 1; bool have_scale = true; };
  std::vector<Part> parts(nframes);
  std::vector<std::string> data_files; // distinct, for truncation
  {
    if (c.cont == "multi" || c.cont == "mpar")
      {
        for (int k = 0; k < nframes; ++k)
          {
            const std::string hv = base + "_" + std::to_string(k + 1) + ".hv";
            auto m = header_map(slurp(hv));
            parts[k].data_file = base + "_" + std::to_string(k + 1) + ".v";
            parts[k].scale = m.count("imagescalingfactor[1]") ? atof(m["imagescalingfactor[1]"].c_str()) : 1.0;
            parts[k].offset = m.count("dataoffsetinbytes[1]") ? atol(m["dataoffsetinbytes[1]"].c_str()) : 0;
            data_files.push_back(parts[k].data_file);
          }
      }
    else
      {
        auto m = header_map(slurp(base + ".hv"));
        for (int k = 0; k < nframes; ++k)
          {
            const std::string i = "[" + std::to_string(k + 1) + "]";
            parts[k].data_file = base + ".v";
            parts[k].scale = m.count("imagescalingfactor" + i) ? atof(m["imagescalingfactor" + i].c_str()) : 1.0;
            parts[k].offset = m.count("dataoffsetinbytes" + i) ? atol(m["dataoffsetinbytes" + i].c_str()) : 0;
          }
        data_files.push_back(base + ".v");
      }
  }
  const long nvox = (long)c.sz[0] * c.sz[1] * c.sz[2];
  const long nb = (long)nt.size_in_bytes();

  // ---- compare
  std::map<std::string, std::string> raws;
  for (auto& d : data_files) raws[d] = slurp(d);
  int bad_frame = -1;
  for (int k = 0; k < nframes && !f.bad(); ++k)
    {
      bad_frame = k;
      const std::string& raw = raws[parts[k].data_file];
      if (!unsupported_type && (long)raw.size() < parts[k].offset + nvox * nb)
        {
          f.set("clause=data_file_short_after_write;" + kt, "data file " + parts[k].data_file + " has " + vmc::str(raw.size()) + " bytes but header announces offset " + vmc::str(parts[k].offset) + " + " + vmc::str(nvox * nb)
                                                                 + " and write_to_file returned Succeeded::yes");
          break;
        }
      const VoxelsOnCartesianGrid<float>* r = nullptr;
      shared_ptr<VoxelsOnCartesianGrid<float>> hold;
      if (c.cont == "single") r = dynamic_cast<const VoxelsOnCartesianGrid<float>*>(rs.get());
      else if (dyn)
        {
          if ((int)rd->get_num_time_frames() != nframes) { f.set("clause=num_frames;" + kt, "frames written " + vmc::str(nframes) + " read " + vmc::str(rd->get_num_time_frames())); break; }
          r = dynamic_cast<const VoxelsOnCartesianGrid<float>*>(&rd->get_density(k + 1));
        }
      else
        {
          hold.reset(new VoxelsOnCartesianGrid<float>(rp->construct_single_density(k + 1)));
          r = hold.get();
        }
      if (!r) { f.set("clause=type_read;" + kt, "object read back is not a VoxelsOnCartesianGrid<float>"); break; }
      const VoxelsOnCartesianGrid<float>* w = frames[k].get();
      shared_ptr<VoxelsOnCartesianGrid<float>> wh;
      if (par) { wh.reset(new VoxelsOnCartesianGrid<float>(par_im->construct_single_density(k + 1))); w = wh.get(); }
      compare_frame(ctx, c, "frame " + std::to_string(k + 1), *w, *r, &raw, parts[k].offset, parts[k].scale, parts[k].have_scale, big, f);
      if (f.bad()) break;
      // exam info
      if (c.cont == "single") compare_exam(ctx, c, "single", frames[0]->get_exam_info(), r->get_exam_info(), true, f);
      else if (c.cont == "multi") compare_exam(ctx, c, "frame " + std::to_string(k + 1), frames[k]->get_exam_info(), r->get_exam_info(), true, f);
    }
  if (!f.bad()) bad_frame = -1;
  if (!f.bad() && dyn) compare_exam(ctx, c, "container", dyn_im->get_exam_info(), rd->get_exam_info(), true, f);
  if (!f.bad() && par) compare_exam(ctx, c, "container", par_im->get_exam_info(), rp->get_exam_info(), false, f);
  if (f.bad())
    {
      if (bad_frame >= 0 && frame_allneg[bad_frame] && f.key.compare(0, 11, "clause=exam") != 0) ctx.violation(kneg + "wrong_content", cs, "a frame with only negative values written to an unsigned type, write_to_file returned Succeeded::yes: " + f.key + ": " + f.msg);
      else ctx.violation(f.key, cs, f.msg);
      cleanup();
      return;
    }
  {
    std::ostringstream d; d << "geom=" << c.mn[0] << "," << c.mn[1] << "," << c.mn[2] << "/" << c.sz[0] << "," << c.sz[1] << "," << c.sz[2] << "/" << c.og << "/" << c.vx << ";T=" << c.T << ";bo=" << c.bo << ";sc=" << c.sc
                            << ";val=" << c.val << ";cont=" << c.cont << ";nf=" << nframes << ";ex=" << c.ex[0] << c.ex[1] << c.ex[2] << c.ex[3] << c.ex[4] << c.ex[5] << c.ex[6];
    ctx.nontrivial(d.str());
  }
  ctx.count("round_trips_compared");
  ctx.count("round_trips_" + c.cont);
  if (c.mn[0] != 0 || c.mn[1] != -(c.sz[1] / 2) || c.mn[2] != -(c.sz[2] / 2)) ctx.count("round_trips_with_index_range_renormalised_on_read");
  ctx.digest(cs);
  if (ctx.samples.size() < 3) ctx.sample(cs + " -> positions/values/exam info equal; data file " + vmc::str(raws.begin()->second.size()) + " bytes, scale " + vmc::str(parts[0].scale));

  // ---- F: truncation sweep
  if ((sweep || c.trunc >= 0) && !unsupported_type)
    {
      for (size_t di = 0; di < data_files.size(); ++di)
        {
          const std::string& df = data_files[di];
          const std::string full = raws[df];
          const long size = (long)full.size();
          std::vector<long> lens;
          if (c.trunc >= 0) { if (di == 0) lens.push_back(c.trunc); }
          else lens = trunc_lengths(size, (long)c.sz[1] * c.sz[2] * nb, sweep == 2);
          std::sort(lens.begin(), lens.end(), std::greater<long>()); // descending: each step is one truncate() of the same file
          for (long L : lens)
            {
              if (L >= size) continue;
              if (::truncate(df.c_str(), L) != 0 || file_size(df) != L) { ctx.count("truncate_syscall_failed"); continue; }
              Case ct = c; ct.trunc = L;
              ctx.current(std::string("clause=truncation;cont=") + c.cont + ";T=" + TYPE_NAMES[c.T], ct.str());
              std::string w;
              const bool t = read_it(&w);
              const bool g = rs || rd || rp;
              ctx.count("truncations_executed");
              if (!t && g)
                {
                  // where does the cut fall
                  const long rel = L % ((long)c.sz[1] * c.sz[2] * nb);
                  ctx.violation(std::string("clause=truncated_data_accepted;cont=") + c.cont + ";T=" + TYPE_NAMES[c.T] + (L == 0 ? ";len=0" : rel == 0 ? ";cut=slice_boundary" : ";cut=inside"),
                                ct.str(), "data file " + df + " truncated from " + vmc::str(size) + " to " + vmc::str(L) + " bytes (header announces " + vmc::str(nvox * nb * (data_files.size() == 1 ? nframes : 1))
                                              + ") was returned as an image instead of an error");
                }
              else ctx.count("truncations_rejected");
              ctx.nontrivial("trunc;" + cs + ";" + std::to_string(di) + ";" + std::to_string(L));
            }
          { std::ofstream o(df, std::ios::binary | std::ios::trunc); o.write(full.data(), size); }
        }
    }
  cleanup();
}

// ------------------------------------------------------------------------------------------------ enumeration
int main(int argc, char** argv)
{
  vmc::Ctx ctx(argc, argv, "C10");
  small::quiet();
  ctx.rule = "product enumeration (canonical order) of container x NumericType x ByteOrder x scale{0,1,0.5} x index range (min{-3,0,2}^3, size{1,2,5,12}^3) x origin/voxel-size patterns x value set x exam info; "
             "each case = real write_to_file + read_from_file + voxel-by-voxel comparison of physical position and value, raw data file decoded by the harness; "
             "F: data file truncated to every (small images) / strided + slice-boundary (larger) length and re-read; distinct = distinct case descriptor";
  ctx.assume("positions: |p_written - p_read| <= 6e-6*(|first pixel offset| + extent) per axis (6 significant digits of the header text) + 8 eps_float terms");
  ctx.assume("float/double output: read value == written value exactly; integer output: |v'-v| <= |scale|/2*(1+1e-6) + 8*eps_float*|v| (quantisation is computed in float by convert_range)");
  ctx.assume("negative values written to an unsigned type are documented as truncated to 0 (convert_range): such voxels are screened from the half-step test (counted), stored value must be 0");
  ctx.assume("exam info demanded only for what write_basic_interfile_image_header writes: modality, patient orientation/rotation (left/right are written as 'other': observed, not failed), time frames with duration>0, "
             "radionuclide name/half life/branching ratio, energy window when high>0 and low>=0, calibration factor>0; header numbers to 6 significant digits");
  ctx.assume("NumericType::BIT is not supported by write_data: counted as rejected config when writing or reading fails; UNKNOWN_TYPE not enumerated");
  ctx.assume("Interfile dynamic/parametric formats force native byte order (documented warning): big-endian request checked as native");
  if (ctx.replaying())
    {
      auto m = vmc::kv(ctx.replay);
      Case c = Case::parse(ctx.replay);
      run_case(ctx, c, m.count("sweep") ? atoi(m["sweep"].c_str()) : 0);
      return ctx.finish();
    }
  const bool th = ctx.thorough();
  uint64_t unit = 0;
  auto exec = [&](const Case& c, int sweep) -> bool {
    if (!ctx.mine(unit++)) return true;
    if (ctx.expired()) return false;
    run_case(ctx, c, sweep);
    return true;
  };

  // ---- part A: positions. FLOAT, all 27 mins x 64 sizes x (origin, voxel) patterns; labelling values
  {
    const int npat = th ? 16 : 2;
    for (int p = 0; p < npat; ++p)
      for (int m = 0; m < 27; ++m)
        for (int s = 0; s < 64; ++s)
          {
            Case c; c.T = 8; c.bo = p % 2; c.sc = 0; c.val = 0;
            c.mn[0] = MINS[m / 9]; c.mn[1] = MINS[(m / 3) % 3]; c.mn[2] = MINS[m % 3];
            c.sz[0] = SIZES[s / 16]; c.sz[1] = SIZES[(s / 4) % 4]; c.sz[2] = SIZES[s % 4];
            c.og = th ? p : (p * 9 + 5) % 16; c.vx = th ? (p * 7 + 3) % 16 : (p * 9 + 6) % 16;
            if (!exec(c, 0)) goto done;
          }
    ctx.maxi("partA_origin_voxel_patterns", npat);
  }
  // ---- part B: values. all types x byte orders x scales x value sets x geometries
  {
    static const int GEO_Q[][6] = { { 0, 0, 0, 1, 1, 1 }, { 0, 0, 0, 2, 2, 2 }, { -3, 2, 0, 1, 2, 5 }, { 2, -3, -3, 5, 2, 1 }, { 0, -2, -2, 5, 5, 5 }, { 2, 0, -3, 12, 5, 2 }, { -3, -3, 2, 2, 12, 5 } };
    for (int T = 0; T < NTYPES; ++T)
      for (int bo = 0; bo < 2; ++bo)
        for (int sc = 0; sc < (T < 8 ? 4 : 3); ++sc)
          for (int val = 0; val < NVALSETS; ++val)
            {
              if (!th)
                {
                  for (auto& g : GEO_Q)
                    {
                      Case c; c.T = T; c.bo = bo; c.sc = sc; c.val = val; c.og = 5; c.vx = 6;
                      for (int i = 0; i < 3; ++i) { c.mn[i] = g[i]; c.sz[i] = g[3 + i]; }
                      if (!exec(c, 0)) goto done;
                    }
                }
              else
                {
                  for (int s = 0; s < 64; ++s)
                    for (int m = 0; m < 27; m += 13) // mins (-3,-3,-3), (0,0,0)... : 3 of the 27 (positions are part A's job)
                      {
                        Case c; c.T = T; c.bo = bo; c.sc = sc; c.val = val; c.og = 5; c.vx = 6;
                        c.mn[0] = MINS[m / 9]; c.mn[1] = MINS[(m / 3) % 3]; c.mn[2] = MINS[m % 3];
                        c.sz[0] = SIZES[s / 16]; c.sz[1] = SIZES[(s / 4) % 4]; c.sz[2] = SIZES[s % 4];
                        if (!exec(c, 0)) goto done;
                      }
                }
            }
  }
  // ---- part C: exam info. thorough: full product of the exam alphabets (FLOAT and SHORT);
  //      quick: full product of (modality, frame, radionuclide, energy window, calibration) at one patient position + all 24 patient positions x modality x frame
  {
    for (int T : { 8, 2 })
      for (int mod = 0; mod < 3; ++mod)
        for (int ori = 0; ori < 4; ++ori)
          for (int rot = 0; rot < 6; ++rot)
            for (int tf = 0; tf < 3; ++tf)
              for (int rn = 0; rn < 3; ++rn)
                for (int ew = 0; ew < 3; ++ew)
                  for (int cal = 0; cal < 3; ++cal)
                    {
                      if (!th)
                        {
                          if (T == 2 && !(ori == 1 && rot == 0 && tf == rn)) continue;
                          const bool base_pos = ori == 0 && rot == 1;
                          const bool pos_sweep = rn == (ori + rot) % 3 && ew == (rot + tf) % 3 && cal == (ori + tf + mod) % 3;
                          if (T == 8 && !base_pos && !pos_sweep) continue;
                        }
                      Case c; c.T = T; c.val = 0; c.sz[0] = 2; c.sz[1] = 2; c.sz[2] = 1; c.mn[1] = -1;
                      c.ex[0] = mod; c.ex[1] = ori; c.ex[2] = rot; c.ex[3] = tf; c.ex[4] = rn; c.ex[5] = ew; c.ex[6] = cal;
                      if (!exec(c, 0)) goto done;
                    }
  }
  // ---- part D: containers
  {
    static const int GEO_D[][6] = { { 0, 0, 0, 1, 1, 1 }, { 0, -1, -1, 2, 2, 2 }, { -3, 2, 0, 2, 5, 1 }, { 2, -3, -3, 5, 2, 12 } };
    for (const char* cont : { "dyn", "multi", "par", "mpar" })
      for (int T = 0; T < NTYPES - 1; ++T)
        for (int bo = 0; bo < 2; ++bo)
          for (int sc = 0; sc < 3; ++sc)
            for (int val : { 0, 2, 3, 4, 1 })
              for (int nf = 1; nf <= 3; ++nf)
                for (size_t gi = 0; gi < 4; ++gi)
                  {
                    const bool is_par = cont[0] == 'p' || cont[1] == 'p';
                    if (is_par && nf != 2) continue;
                    if (!th && (gi == 3 || (val == 1 && gi != 1))) continue;
                    if (!th && bo == 1 && (cont[0] == 'd' || (cont[0] == 'p'))) continue; // Interfile dynamic/parametric formats force native order
                    Case c; c.cont = cont; c.T = T; c.bo = bo; c.sc = sc; c.val = val; c.nf = nf; c.og = 9; c.vx = 10;
                    for (int i = 0; i < 3; ++i) { c.mn[i] = GEO_D[gi][i]; c.sz[i] = GEO_D[gi][3 + i]; }
                    c.ex[3] = 2; // dynamic containers need time frames
                    c.ex[4] = (T + nf) % 3; c.ex[5] = (T + sc) % 2; c.ex[6] = (bo + nf) % 3; c.ex[1] = nf % 2; c.ex[2] = sc % 2;
                    if (!exec(c, 0)) goto done;
                  }
  }
  // ---- part F: truncation sweeps
  {
    // small images: every length; larger: strided + slice boundaries.  One type per size in bytes (1,2,4,8) + float/double; all containers.
    static const int GEO_S[][6] = { { 0, 0, 0, 1, 1, 1 }, { 0, -1, -1, 2, 2, 2 }, { 0, 0, -1, 1, 1, 2 }, { -3, 2, 0, 2, 1, 2 } };
    static const int GEO_L[][6] = { { 0, -2, -2, 5, 5, 5 }, { 2, 0, -3, 12, 5, 2 }, { 0, -6, -6, 2, 12, 12 } };
    for (const char* cont : { "single", "dyn", "multi", "par", "mpar" })
      for (int T : { 0, 2, 3, 4, 6, 8, 9, 1, 5, 7 })
        {
          if (!th && std::string(cont) != "single" && (T == 1 || T == 5 || T == 7 || T == 3)) continue;
          for (int big = 0; big < 2; ++big)
            {
              const size_t ng = big ? 3 : 4;
              for (size_t gi = 0; gi < ng; ++gi)
                for (int val : { 0, 1 })
                  for (int nf = 1; nf <= 3; nf += 1)
                    {
                      const std::string sc_ = cont;
                      const bool is_dyn = sc_ == "dyn" || sc_ == "multi", is_par = sc_ == "par" || sc_ == "mpar";
                      if (!is_dyn && nf != 1) continue;
                      if (is_dyn && !th && nf == 2) continue;
                      if (!th && val == 1 && (big || gi != 1)) continue;
                      if (!th && big && gi == 2) continue;
                      Case c; c.cont = cont; c.T = T; c.bo = (T + gi) % 2; c.sc = (int)((gi + big) % 3); c.val = val; c.nf = is_par ? 2 : nf; c.og = 3; c.vx = 2;
                      const int(*G)[6] = big ? GEO_L : GEO_S;
                      for (int i = 0; i < 3; ++i) { c.mn[i] = G[gi][i]; c.sz[i] = G[gi][3 + i]; }
                      c.ex[3] = 2;
                      // Multi dynamic container: every read of frames 2.. costs ~30 ms (the reader looks up the scanner by name, which constructs every
                      // Scanner of the list), and its per-frame files are written/read by the single-image Interfile code that cont=single sweeps at
                      // every length.  So for the larger images: strided + slice-boundary lengths only, labelling values only.
                      const bool slow_multi = sc_ == "multi" && big;
                      if (slow_multi && val == 1) continue;
                      if (!exec(c, big && !th ? 1 : (big ? (!slow_multi && (long)c.sz[0] * c.sz[1] * c.sz[2] * 8 <= 2048 ? 2 : 1) : 2))) goto done;
                    }
            }
        }
  }
done:
  ctx.maxi("sizes_per_axis_max", 12);
  return ctx.finish();
}
