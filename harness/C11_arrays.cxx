// C11 - arrays behave as index-range maps under any history and stay in bounds.
//
// Explicit-state history search (vmc::HistSearch) over a two-object world (a, b) of one "kind":
//   V    VectorWithOffset<int>                owning
//   Vv   VectorWithOffset<int>                viewing a harness-owned heap buffer (exact size => ASan red zones are the guard bands)
//   A1   Array<1,float>   A1v  viewing
//   A2   Array<2,float>   A2v  viewing
//   A3   Array<3,float>
//   A4   Array<4,float>   (thorough only, depth 2)
// Every history is replayed on FRESH objects; after every operation both objects are compared with a
// reference tree (index range + values), through operator[], at(), begin/end, begin_all/end_all,
// size/size_all/sum/find_max, ==, get_index_range, and (when the array says it is contiguous) the
// raw data pointer.  The flavour is ASan: any read/write outside owned storage kills the process and
// is reported by the driver as "crash;<kind>" with the recorded history.
//
// Canonical state = serialisation of the REAL objects: ranges, values, capacity windows and ownership
// at every nesting level (the capacity window decides whether the next resize/assign reallocates).
#include "vmc.h"
#include "stir/Array.h"
#include "stir/IndexRange.h"
#include "stir/VectorWithOffset.h"
#include "stir/BasicCoordinate.h"
#include "stir/shared_ptr.h"
#include <memory>

using namespace stir;

// ------------------------------------------------------------------------------------------------ reference
struct Node
{
  int d = 1;           // nesting depth: 1 => children are leaves
  int lo = 0, hi = -1; // hi<lo: empty
  std::vector<Node> ch; // d>=2
  std::vector<float> val; // d==1
  std::vector<char> known; // d==1
  bool empty() const { return hi < lo; }
  int n() const { return empty() ? 0 : hi - lo + 1; }
};

static Node mk1(int lo, int hi, bool known = true)
{
  Node r; r.d = 1; r.lo = lo; r.hi = hi;
  if (hi < lo) { r.lo = 0; r.hi = -1; }
  r.val.assign(r.n(), 0.f); r.known.assign(r.n(), known ? 1 : 0);
  return r;
}
static Node mkN(int d, int lo, int hi, const std::vector<Node>& children)
{
  Node r; r.d = d; r.lo = lo; r.hi = hi; r.ch = children;
  if (hi < lo) { r.lo = 0; r.hi = -1; r.ch.clear(); }
  return r;
}
static Node emptyN(int d) { Node r; r.d = d; return r; }
// regular box
static Node box(std::vector<std::pair<int, int>> r)
{
  if (r.size() == 1) return mk1(r[0].first, r[0].second);
  std::vector<std::pair<int, int>> rest(r.begin() + 1, r.end());
  Node c = box(rest);
  int n = r[0].second - r[0].first + 1;
  return mkN((int)r.size(), r[0].first, r[0].second, std::vector<Node>(n > 0 ? n : 0, c));
}
static Node zero_like(const Node& s, bool known = true)
{
  Node r = s;
  if (s.d == 1) { r.val.assign(s.n(), 0.f); r.known.assign(s.n(), known ? 1 : 0); }
  else for (auto& c : r.ch) c = zero_like(c, known);
  return r;
}
// the property's resize semantics: surviving elements keep their values, new ones are zero (numeric) / unknown (plain vector)
static Node resized(const Node& old, const Node& shape, bool numeric)
{
  Node r = zero_like(shape, numeric);
  if (shape.empty() || old.empty()) return r;
  for (int i = shape.lo; i <= shape.hi; ++i)
    {
      if (i < old.lo || i > old.hi) continue;
      if (shape.d == 1) { r.val[i - shape.lo] = old.val[i - old.lo]; r.known[i - shape.lo] = old.known[i - old.lo]; }
      else r.ch[i - shape.lo] = resized(old.ch[i - old.lo], shape.ch[i - shape.lo], numeric);
    }
  return r;
}
static bool same_range(const Node& a, const Node& b)
{
  if (a.empty() || b.empty()) return a.empty() && b.empty();
  if (a.lo != b.lo || a.hi != b.hi) return false;
  if (a.d > 1) for (int i = 0; i < a.n(); ++i) if (!same_range(a.ch[i], b.ch[i])) return false;
  return true;
}
static bool all_known(const Node& a)
{
  if (a.d == 1) { for (char k : a.known) if (!k) return false; return true; }
  for (auto& c : a.ch) if (!all_known(c)) return false;
  return true;
}
static bool feq(float x, float y) { return (x == y) || (std::isnan(x) && std::isnan(y)); }
static bool node_eq(const Node& a, const Node& b)
{
  if (a.empty() || b.empty()) return a.empty() && b.empty();
  if (a.lo != b.lo || a.hi != b.hi) return false;
  if (a.d == 1) { for (int i = 0; i < a.n(); ++i) if (!(a.val[i] == b.val[i])) return false; return true; }
  for (int i = 0; i < a.n(); ++i) if (!node_eq(a.ch[i], b.ch[i])) return false;
  return true;
}
static void flatten(const Node& a, std::vector<float>& out)
{
  if (a.d == 1) { out.insert(out.end(), a.val.begin(), a.val.end()); return; }
  for (auto& c : a.ch) flatten(c, out);
}
static void fill_node(Node& a, float v)
{
  if (a.d == 1) { a.val.assign(a.n(), v); a.known.assign(a.n(), 1); return; }
  for (auto& c : a.ch) fill_node(c, v);
}
static void scale_node(Node& a, float s, char op)
{
  if (a.d == 1) { for (auto& x : a.val) { if (op == '*') x *= s; else if (op == '/') x /= s; else if (op == '+') x += s; else x -= s; } return; }
  for (auto& c : a.ch) scale_node(c, s, op);
}
static bool has_regular_box(const Node& a, std::vector<std::pair<int, int>>& r)
{
  // is the (non-empty at every level) node a regular box?
  if (a.empty()) return false;
  r.push_back({ a.lo, a.hi });
  if (a.d == 1) return true;
  std::vector<std::pair<int, int>> first;
  if (!has_regular_box(a.ch[0], first)) return false;
  for (size_t i = 1; i < a.ch.size(); ++i)
    {
      std::vector<std::pair<int, int>> o;
      if (!has_regular_box(a.ch[i], o) || o != first) return false;
    }
  r.insert(r.end(), first.begin(), first.end());
  return true;
}
// Is x op= v well-specified by the documentation (growing semantics)?  We leave out the cases where a
// NON-empty x meets an EMPTY v at some level: the library then grows x towards index 0 (an empty
// vector reports min_index 0), which the property text does not specify either way.
static bool arith_specified(const Node& x, const Node& v)
{
  if (x.empty()) return true;
  if (v.empty()) return false;
  if (x.d == 1) return true;
  for (int i = std::max(x.lo, v.lo); i <= std::min(x.hi, v.hi); ++i)
    if (!arith_specified(x.ch[i - x.lo], v.ch[i - v.lo])) return false;
  return true;
}
static void arith(Node& x, const Node& v, char op)
{
  if (x.empty())
    {
      x = v;
      if (op == '-') scale_node(x, -1.f, '*');
      if (op == '*' || op == '/') scale_node(x, 0.f, '*');
      return;
    }
  const int lo = std::min(x.lo, v.lo), hi = std::max(x.hi, v.hi);
  if (lo != x.lo || hi != x.hi)
    {
      Node g; g.d = x.d; g.lo = lo; g.hi = hi;
      if (x.d == 1) { g.val.assign(g.n(), 0.f); g.known.assign(g.n(), 1); for (int i = x.lo; i <= x.hi; ++i) { g.val[i - lo] = x.val[i - x.lo]; g.known[i - lo] = x.known[i - x.lo]; } }
      else { g.ch.assign(g.n(), emptyN(x.d - 1)); for (int i = x.lo; i <= x.hi; ++i) g.ch[i - lo] = x.ch[i - x.lo]; }
      x = g;
    }
  for (int i = v.lo; i <= v.hi; ++i)
    {
      if (x.d == 1)
        {
          float& t = x.val[i - x.lo]; const float s = v.val[i - v.lo];
          if (op == '+') t += s; else if (op == '-') t -= s; else if (op == '*') t *= s; else t /= s;
        }
      else arith(x.ch[i - x.lo], v.ch[i - v.lo], op);
    }
}

// ------------------------------------------------------------------------------------------------ real side helpers
template <int N> struct RangeOf
{
  static IndexRange<N> make(const Node& s)
  {
    if (s.empty()) return IndexRange<N>();
    VectorWithOffset<IndexRange<N - 1>> v(s.lo, s.hi);
    for (int i = s.lo; i <= s.hi; ++i) v[i] = RangeOf<N - 1>::make(s.ch[i - s.lo]);
    return IndexRange<N>(v);
  }
};
template <> struct RangeOf<1>
{
  static IndexRange<1> make(const Node& s) { return s.empty() ? IndexRange<1>(0, -1) : IndexRange<1>(s.lo, s.hi); }
};

struct Err
{
  std::string key, msg;
  bool bad() const { return !key.empty(); }
  void set(const std::string& k, const std::string& m) { if (key.empty()) { key = k; msg = m; } }
};

template <class VEC> static bool cmp_outer(const VEC& a, const Node& r, const std::string& path, Err& e)
{
  if ((int)a.size() != r.n()) { e.set("size", path + ": size()=" + vmc::str(a.size()) + " reference " + vmc::str(r.n())); return false; }
  if ((a.size() == 0) != a.empty()) { e.set("empty", path + ": empty() inconsistent with size()"); return false; }
  if (!r.empty() && (a.get_min_index() != r.lo || a.get_max_index() != r.hi))
    { e.set("range", path + ": index range [" + vmc::str(a.get_min_index()) + "," + vmc::str(a.get_max_index()) + "] reference [" + vmc::str(r.lo) + "," + vmc::str(r.hi) + "]"); return false; }
  if ((int)(a.end() - a.begin()) != r.n()) { e.set("iter", path + ": end()-begin() != size"); return false; }
  return true;
}
static void cmp(const VectorWithOffset<int>& a, const Node& r, const std::string& path, Err& e)
{
  if (!cmp_outer(a, r, path, e)) return;
  auto it = a.begin();
  for (int i = r.lo; i <= r.hi; ++i, ++it)
    {
      if (!r.known[i - r.lo]) continue;
      if ((float)a[i] != r.val[i - r.lo]) { e.set("value", path + "[" + vmc::str(i) + "]=" + vmc::str(a[i]) + " reference " + vmc::str(r.val[i - r.lo])); return; }
      if (a.at(i) != a[i] || *it != a[i]) { e.set("access", path + "[" + vmc::str(i) + "]: at()/iterator disagree with operator[]"); return; }
    }
}
static void cmp(const Array<1, float>& a, const Node& r, const std::string& path, Err& e)
{
  if (!cmp_outer(a, r, path, e)) return;
  auto it = a.begin();
  for (int i = r.lo; i <= r.hi; ++i, ++it)
    {
      if (!feq(a[i], r.val[i - r.lo])) { e.set("value", path + "[" + vmc::str(i) + "]=" + vmc::str(a[i]) + " reference " + vmc::str(r.val[i - r.lo])); return; }
      if (!feq(a.at(i), a[i]) || !feq(*it, a[i])) { e.set("access", path + "[" + vmc::str(i) + "]: at()/iterator disagree with operator[]"); return; }
    }
}
template <int N> static void cmp(const Array<N, float>& a, const Node& r, const std::string& path, Err& e)
{
  if (!cmp_outer(a, r, path, e)) return;
  for (int i = r.lo; i <= r.hi && !e.bad(); ++i) cmp(a[i], r.ch[i - r.lo], path + "[" + vmc::str(i) + "]", e);
}
// whole-array observers (Array only)
template <int N> static void cmp_whole(const Array<N, float>& a, const Node& r, const std::string& path, Err& e)
{
  std::vector<float> flat; flatten(r, flat);
  if (a.size_all() != flat.size()) { e.set("size_all", path + ": size_all()=" + vmc::str(a.size_all()) + " reference " + vmc::str(flat.size())); return; }
  size_t k = 0;
  for (auto it = a.begin_all(); it != a.end_all(); ++it, ++k)
    {
      if (k >= flat.size()) { e.set("full_iter", path + ": full iteration visits more than size_all() elements"); return; }
      if (!feq(*it, flat[k])) { e.set("full_iter", path + ": full iteration element #" + vmc::str(k) + "=" + vmc::str(*it) + " reference (row-major) " + vmc::str(flat[k])); return; }
    }
  if (k != flat.size()) { e.set("full_iter", path + ": full iteration visits " + vmc::str(k) + " elements, reference " + vmc::str(flat.size())); return; }
  if (!flat.empty())
    {
      float s = 0, mx = flat[0], mn = flat[0]; bool nan = false;
      for (float f : flat) { s += f; if (f > mx) mx = f; if (f < mn) mn = f; if (std::isnan(f) || std::isinf(f)) nan = true; }
      std::vector<std::pair<int, int>> bx;
      bool anyempty = false;
      std::function<void(const Node&)> chk = [&](const Node& n) { if (n.empty()) anyempty = true; else if (n.d > 1) for (auto& c : n.ch) chk(c); };
      chk(r);
      if (!nan)
        {
          if (std::fabs(a.sum() - s) > 1e-3f * (1 + std::fabs(s))) { e.set("sum", path + ": sum()=" + vmc::str(a.sum()) + " reference " + vmc::str(s)); return; }
          // find_max/find_min of an EMPTY (sub-)array are documented as "return 0 (TODO)": only compare when no sub-array is empty
          if (!anyempty && a.find_max() != mx) { e.set("find_max", path + ": find_max()=" + vmc::str(a.find_max()) + " reference " + vmc::str(mx)); return; }
          if (!anyempty && a.find_min() != mn) { e.set("find_min", path + ": find_min()=" + vmc::str(a.find_min()) + " reference " + vmc::str(mn)); return; }
        }
      // regularity and get_index_range
      if (!anyempty)
        {
          const bool reg = has_regular_box(r, bx);
          if (a.is_regular() != reg) { e.set("is_regular", path + ": is_regular()=" + vmc::str(a.is_regular()) + " reference " + vmc::str(reg)); return; }
          if (!(a.get_index_range() == RangeOf<N>::make(r))) { e.set("index_range", path + ": get_index_range() differs from reference shape"); return; }
          // contiguity claim must be true when made
          if (a.is_contiguous())
            {
              const float* p = a.get_const_full_data_ptr();
              bool ok = true;
              for (size_t i = 0; i < flat.size(); ++i) if (!feq(p[i], flat[i])) ok = false;
              a.release_const_full_data_ptr();
              if (!ok) { e.set("contiguous", path + ": is_contiguous() true but the data pointer does not give the row-major contents"); return; }
            }
        }
    }
}
static void cmp_whole(const VectorWithOffset<int>&, const Node&, const std::string&, Err&) {}

// canonical serialisation of the REAL object (values from the object; unknown values from the reference mask)
static void canon(const VectorWithOffset<int>& a, const Node& r, std::string& o)
{
  o += "[" + (a.size() ? vmc::str(a.get_min_index()) + "," + vmc::str(a.get_max_index()) + ";c" + vmc::str(a.get_capacity_min_index()) + "," + vmc::str(a.get_capacity_max_index()) : std::string("e;c") + vmc::str(a.capacity()))
       + (a.owns_memory_for_data() ? "o" : "v") + ":";
  for (int i = a.get_min_index(); i <= a.get_max_index(); ++i) o += (r.known.size() == a.size() && !r.known[i - a.get_min_index()] ? std::string("?") : vmc::str(a[i])) + " ";
  o += "]";
}
static void canon(const Array<1, float>& a, const Node&, std::string& o)
{
  o += "[" + (a.size() ? vmc::str(a.get_min_index()) + "," + vmc::str(a.get_max_index()) + ";c" + vmc::str(a.get_capacity_min_index()) + "," + vmc::str(a.get_capacity_max_index()) : std::string("e;c") + vmc::str(a.capacity()))
       + (a.owns_memory_for_data() ? "o" : "v") + ":";
  for (int i = a.get_min_index(); i <= a.get_max_index(); ++i) o += vmc::str(a[i]) + " ";
  o += "]";
}
template <int N> static void canon(const Array<N, float>& a, const Node& r, std::string& o)
{
  o += "{" + (a.size() ? vmc::str(a.get_min_index()) + "," + vmc::str(a.get_max_index()) + ";c" + vmc::str(a.get_capacity_min_index()) + "," + vmc::str(a.get_capacity_max_index()) : std::string("e;c") + vmc::str(a.capacity()))
       + (a.owns_memory_for_data() ? "o" : "v") + (a._allocated_full_data_ptr ? "F" : "") + ":";
  for (int i = a.get_min_index(); i <= a.get_max_index(); ++i) canon(a[i], Node(), o);
  // stale sub-arrays inside the capacity window influence future resizes: include their sizes
  if (a.size())
    for (int i = a.get_capacity_min_index(); i <= a.get_capacity_max_index(); ++i)
      if (i < a.get_min_index() || i > a.get_max_index()) { o += "s"; canon(a.num[i], Node(), o); }
  o += "}";
}

// ------------------------------------------------------------------------------------------------ kinds
template <class T> struct Traits;
template <> struct Traits<VectorWithOffset<int>>
{
  static constexpr int N = 1; static constexpr bool numeric = false; static constexpr bool is_array = false;
  static std::vector<Node> shapes(bool) { return { emptyN(1), mk1(0, 2), mk1(-1, 1), mk1(2, 4), mk1(0, 5), mk1(-3, 0) }; }
};
template <> struct Traits<Array<1, float>>
{
  static constexpr int N = 1; static constexpr bool numeric = true; static constexpr bool is_array = true;
  static std::vector<Node> shapes(bool) { return { emptyN(1), mk1(0, 2), mk1(-1, 1), mk1(2, 4), mk1(0, 5), mk1(-3, 0) }; }
};
template <> struct Traits<Array<2, float>>
{
  static constexpr int N = 2; static constexpr bool numeric = true; static constexpr bool is_array = true;
  static std::vector<Node> shapes(bool)
  {
    Node irr = mkN(2, 0, 1, { mk1(0, 1), mk1(-1, 2) });
    return { emptyN(2), box({ { 0, 1 }, { 0, 2 } }), box({ { -1, 1 }, { -1, 1 } }), box({ { 0, 2 }, { 0, 2 } }), irr, box({ { 1, 2 }, { 2, 3 } }) };
  }
};
template <> struct Traits<Array<3, float>>
{
  static constexpr int N = 3; static constexpr bool numeric = true; static constexpr bool is_array = true;
  static std::vector<Node> shapes(bool)
  {
    Node irr = mkN(3, 0, 1, { box({ { 0, 1 }, { 0, 1 } }), mkN(2, -1, 0, { mk1(0, 2), mk1(1, 1) }) });
    return { emptyN(3), box({ { 0, 1 }, { 0, 1 }, { 0, 2 } }), box({ { -1, 0 }, { 0, 2 }, { 0, 1 } }), irr, box({ { 0, 2 }, { 0, 1 }, { 0, 1 } }) };
  }
};
template <> struct Traits<Array<4, float>>
{
  static constexpr int N = 4; static constexpr bool numeric = true; static constexpr bool is_array = true;
  static std::vector<Node> shapes(bool)
  {
    return { emptyN(4), box({ { 0, 1 }, { 0, 1 }, { 0, 1 }, { 0, 1 } }), box({ { -1, 0 }, { 0, 0 }, { 0, 1 }, { 1, 2 } }), box({ { 0, 2 }, { 0, 1 }, { 0, 1 }, { 0, 1 } }) };
  }
};

// apply a shape to a real object
static void do_resize(VectorWithOffset<int>& a, const Node& s) { a.resize(s.lo, s.hi); }
static void do_resize(Array<1, float>& a, const Node& s) { a.resize(RangeOf<1>::make(s)); }
template <int N> static void do_resize(Array<N, float>& a, const Node& s) { a.resize(RangeOf<N>::make(s)); }
static void do_grow(VectorWithOffset<int>& a, const Node& s) { a.grow(s.lo, s.hi); }
static void do_grow(Array<1, float>& a, const Node& s) { a.grow(RangeOf<1>::make(s)); }
template <int N> static void do_grow(Array<N, float>& a, const Node& s) { a.grow(RangeOf<N>::make(s)); }
// does shape s enclose node x (so that grow is legal)?
static bool encloses(const Node& s, const Node& x)
{
  if (x.empty()) return true;
  if (s.empty()) return false;
  if (s.lo > x.lo || s.hi < x.hi) return false;
  if (x.d > 1) for (int i = x.lo; i <= x.hi; ++i) if (!encloses(s.ch[i - s.lo], x.ch[i - x.lo])) return false;
  return true;
}

// first / last leaf coordinate of a node (empty => false)
static bool first_coord(const Node& r, std::vector<int>& c, bool last)
{
  if (r.empty()) return false;
  const int i = last ? r.hi : r.lo;
  c.push_back(i);
  if (r.d == 1) return true;
  return first_coord(r.ch[i - r.lo], c, last);
}
static float& leaf(Node& r, const std::vector<int>& c, size_t k = 0)
{
  if (r.d == 1) return r.val[c[k] - r.lo];
  return leaf(r.ch[c[k] - r.lo], c, k + 1);
}
static int& elem(VectorWithOffset<int>& a, const std::vector<int>& c) { return a[c[0]]; }
static float& elem(Array<1, float>& a, const std::vector<int>& c) { return a[c[0]]; }
template <int N> static float& elem(Array<N, float>& a, const std::vector<int>& c)
{
  BasicCoordinate<N, int> bc; for (int i = 1; i <= N; ++i) bc[i] = c[i - 1];
  return a[bc];
}
static float at_elem(VectorWithOffset<int>& a, const std::vector<int>& c) { return (float)a.at(c[0]); }
static float at_elem(Array<1, float>& a, const std::vector<int>& c) { return a.at(c[0]); }
template <int N> static float at_elem(Array<N, float>& a, const std::vector<int>& c)
{
  BasicCoordinate<N, int> bc; for (int i = 1; i <= N; ++i) bc[i] = c[i - 1];
  return a.at(bc);
}

// ------------------------------------------------------------------------------------------------ the world
template <class T> struct World
{
  using TR = Traits<T>;
  bool view = false;
  std::shared_ptr<float[]> fbuf; // backing store for viewing arrays
  int* ibuf = nullptr;           // backing store for viewing VectorWithOffset<int> (exact-size heap block)
  size_t buflen = 0;
  std::unique_ptr<T> a, b;
  Node ra, rb;
  int step = 0;
  bool structure_touched = false; // a resize/grow/reserve/assign/arith happened on a
  Err err;

  ~World() { a.reset(); b.reset(); delete[] ibuf; }

  float label() { return (float)(10 + step); }

  void init(bool v, const Node& view_shape)
  {
    view = v;
    if (!view) { a.reset(new T()); b.reset(new T()); ra = emptyN(TR::N); rb = emptyN(TR::N); return; }
    ra = zero_like(view_shape, true);
    std::vector<float> flat; flatten(ra, flat);
    buflen = flat.size();
    // labelled initial contents 1,2,3...
    int k = 1; std::function<void(Node&)> lab = [&](Node& n) { if (n.d == 1) for (auto& x : n.val) x = (float)k++; else for (auto& c : n.ch) lab(c); };
    lab(ra);
    make_view(view_shape);
    b.reset(new T()); rb = emptyN(TR::N);
  }
  void make_view(const Node& s);

  // after every op: the complete comparison
  void check_all(const std::string& opname)
  {
    if (err.bad()) return;
    cmp(*a, ra, "a", err); if (err.bad()) goto out;
    cmp(*b, rb, "b", err); if (err.bad()) goto out;
    cmp_whole(*a, ra, "a", err); if (err.bad()) goto out;
    cmp_whole(*b, rb, "b", err); if (err.bad()) goto out;
    if (all_known(ra) && all_known(rb))
      {
        const bool eq = (*a == *b), req = node_eq(ra, rb);
        bool nan = false; { std::vector<float> f; flatten(ra, f); flatten(rb, f); for (float x : f) if (std::isnan(x)) nan = true; }
        if (!nan && eq != req) err.set("equality", "a==b is " + vmc::str(eq) + " but reference contents say " + vmc::str(req));
        if (!nan && !err.bad() && !(*a == *a)) err.set("equality", "a==a is false");
      }
    if (view && !err.bad()) check_alias();
  out:
    if (err.bad()) err.key = err.key + ";op=" + opname.substr(0, opname.find('('));
  }
  void check_alias();
};

template <> void World<VectorWithOffset<int>>::make_view(const Node& s)
{
  ibuf = new int[buflen];
  for (size_t i = 0; i < buflen; ++i) ibuf[i] = (int)ra.val[i];
  a.reset(new VectorWithOffset<int>(s.lo, s.hi, ibuf, ibuf + buflen));
}
template <class T> void World<T>::make_view(const Node& s)
{
  fbuf = std::shared_ptr<float[]>(new float[buflen]);
  std::vector<float> flat; flatten(ra, flat);
  for (size_t i = 0; i < buflen; ++i) fbuf[i] = flat[i];
  a.reset(new T(RangeOf<TR::N>::make(s), fbuf));
}
template <> void World<VectorWithOffset<int>>::check_alias()
{
  if (ra.empty()) return;
  const int* p0 = &(*a)[ra.lo]; const int* p1 = &(*a)[ra.hi];
  const bool in0 = p0 >= ibuf && p0 < ibuf + buflen, in1 = p1 >= ibuf && p1 < ibuf + buflen;
  if (in0 != in1) { err.set("alias", "viewing vector straddles the end of the shared buffer"); return; }
  if (!structure_touched && !in0) { err.set("alias_lost", "viewing vector no longer aliases its buffer although it was never resized"); return; }
  if (!structure_touched)
    for (int i = ra.lo; i <= ra.hi; ++i) if (ra.known[i - ra.lo] && (float)ibuf[i - ra.lo] != ra.val[i - ra.lo]) { err.set("alias", "shared buffer content differs from the view"); return; }
}
template <class T> void World<T>::check_alias()
{
  if (structure_touched) return;
  std::vector<float> flat; flatten(ra, flat);
  if (flat.size() != buflen || buflen == 0) return;
  std::vector<int> c; first_coord(ra, c, false);
  const float* p0 = &elem(*a, c);
  if (!(p0 >= fbuf.get() && p0 < fbuf.get() + buflen)) { err.set("alias_lost", "viewing array no longer aliases the shared memory although it was never resized"); return; }
  for (size_t i = 0; i < buflen; ++i) if (!feq(fbuf[i], flat[i])) { err.set("alias", "shared buffer content differs from the viewing array (element #" + vmc::str(i) + ")"); return; }
}

// ------------------------------------------------------------------------------------------------ operations
template <class T> struct Op { std::string name; std::function<void(World<T>&)> run; };

// run f; expect (or not) an exception; on unexpected outcome set error
template <class W, class F> static void guarded(W& w, const std::string& what, bool expect_throw, F f)
{
  bool thrown = false; std::string ex;
  try { f(); }
  catch (std::exception& e) { thrown = true; ex = e.what(); }
  catch (...) { thrown = true; ex = "non-std exception"; }
  if (thrown && !expect_throw) w.err.set("unexpected_exception", what + " threw: " + ex);
  if (!thrown && expect_throw) w.err.set("missing_error", what + " was accepted although the operands/indices are out of range");
}

template <class T> static std::vector<Op<T>> make_ops(bool thorough)
{
  using TR = Traits<T>; using W = World<T>;
  std::vector<Op<T>> ops;
  const std::vector<Node> shapes = TR::shapes(thorough);
  auto shape_name = [](const Node& s) {
    std::string o; std::function<void(const Node&)> f = [&](const Node& n) { if (n.empty()) { o += "[]"; return; } o += "[" + vmc::str(n.lo) + ":" + vmc::str(n.hi); if (n.d > 1) { bool reg = true; std::vector<std::pair<int,int>> bx; reg = has_regular_box(n, bx); if (reg) { o += "x"; f(n.ch[0]); } else for (auto& c : n.ch) { o += " "; f(c); } } o += "]"; };
    f(s); return o; };
  // ---- simplest first: fill / element write / read
  ops.push_back({ "a.fill(v)", [](W& w) { float v = w.label(); guarded(w, "fill", false, [&] { w.a->fill(v); }); fill_node(w.ra, v); } });
  ops.push_back({ "a[first]=v", [](W& w) { std::vector<int> c; if (!first_coord(w.ra, c, false)) return; float v = w.label(); guarded(w, "write", false, [&] { elem(*w.a, c) = v; }); leaf(w.ra, c) = v; if (w.ra.d == 1) w.ra.known[c[0] - w.ra.lo] = 1; else { Node* n = &w.ra; for (size_t k = 0; k + 1 < c.size(); ++k) n = &n->ch[c[k] - n->lo]; n->known[c.back() - n->lo] = 1; } } });
  ops.push_back({ "a[last]=v", [](W& w) { std::vector<int> c; if (!first_coord(w.ra, c, true)) return; float v = w.label(); guarded(w, "write", false, [&] { elem(*w.a, c) = v; }); leaf(w.ra, c) = v; Node* n = &w.ra; for (size_t k = 0; k + 1 < c.size(); ++k) n = &n->ch[c[k] - n->lo]; n->known[c.back() - n->lo] = 1; } });
  ops.push_back({ "b.fill(v)", [](W& w) { float v = w.label() + 100; guarded(w, "fill", false, [&] { w.b->fill(v); }); fill_node(w.rb, v); } });
  // checked access: below first, above last (all coordinates), and on an empty array
  ops.push_back({ "a.at(first-1)", [](W& w) { std::vector<int> c; if (!first_coord(w.ra, c, false)) c.assign(TR::N, 0); else c[0] -= 1; guarded(w, "at(below range)", true, [&] { (void)at_elem(*w.a, c); }); } });
  ops.push_back({ "a.at(last+1 inner)", [](W& w) { std::vector<int> c; if (!first_coord(w.ra, c, true)) c.assign(TR::N, 0); else c.back() += 1; guarded(w, "at(above range)", true, [&] { (void)at_elem(*w.a, c); }); } });
  // ---- resize / grow
  for (size_t si = 0; si < shapes.size(); ++si)
    {
      Node s = shapes[si];
      ops.push_back({ "a.resize(" + shape_name(s) + ")", [s](W& w) { guarded(w, "resize", false, [&] { do_resize(*w.a, s); }); w.ra = resized(w.ra, s, TR::numeric); w.structure_touched = true; } });
    }
  for (size_t si = 1; si < shapes.size(); ++si)
    {
      Node s = shapes[si];
      ops.push_back({ "a.grow(" + shape_name(s) + ")", [s](W& w) { if (!encloses(s, w.ra)) return; /* precondition (assert only) */ guarded(w, "grow", false, [&] { do_grow(*w.a, s); }); w.ra = resized(w.ra, s, TR::numeric); w.structure_touched = true; } });
    }
  for (size_t si = 0; si < shapes.size(); si += 2)
    {
      Node s = shapes[si];
      ops.push_back({ "b.resize(" + shape_name(s) + ")", [s](W& w) { guarded(w, "resize", false, [&] { do_resize(*w.b, s); }); w.rb = resized(w.rb, s, TR::numeric); } });
    }
  // ---- offsets, reserve (outer level)
  for (int k : { -2, 0, 3 })
    ops.push_back({ "a.set_offset(" + vmc::str(k) + ")", [k](W& w) { guarded(w, "set_offset", false, [&] { w.a->set_offset(k); }); if (!w.ra.empty()) { int n = w.ra.n(); w.ra.lo = k; w.ra.hi = k + n - 1; } } });
  ops.push_back({ "a.set_min_index(1)", [](W& w) { guarded(w, "set_min_index", false, [&] { w.a->set_min_index(1); }); if (!w.ra.empty()) { int n = w.ra.n(); w.ra.lo = 1; w.ra.hi = n; } } });
  for (auto r : std::vector<std::pair<int, int>>{ { -4, 6 }, { 0, 1 }, { 3, 8 } })
    ops.push_back({ "a.reserve(" + vmc::str(r.first) + "," + vmc::str(r.second) + ")", [r](W& w) { guarded(w, "reserve", false, [&] { w.a->reserve(r.first, r.second); }); w.structure_touched = true; } });
  // ---- assignment, copy, move
  ops.push_back({ "a=b", [](W& w) { guarded(w, "a=b", false, [&] { *w.a = *w.b; }); if (!same_range(w.ra, w.rb)) w.structure_touched = true; w.ra = w.rb; } });
  ops.push_back({ "b=a", [](W& w) { guarded(w, "b=a", false, [&] { *w.b = *w.a; }); w.rb = w.ra; } });
  ops.push_back({ "a=a", [](W& w) { guarded(w, "a=a", false, [&] { T& r = *w.a; *w.a = r; }); } });
  ops.push_back({ "b=T(a) copy+move", [](W& w) { guarded(w, "copy-construct", false, [&] { T c(*w.a); Err e; cmp(c, w.ra, "copy", e); if (e.bad()) w.err.set("copy;" + e.key, e.msg); *w.b = std::move(c); }); w.rb = w.ra; } });
  ops.push_back({ "a=T(std::move(b))", [](W& w) { guarded(w, "move-construct", false, [&] { T c(std::move(*w.b)); *w.a = c; w.b.reset(new T()); }); w.ra = w.rb; w.rb = emptyN(TR::N); w.structure_touched = true; } });
  if constexpr (!TR::is_array)
    {
      ops.push_back({ "a.recycle()", [](W& w) { guarded(w, "recycle", false, [&] { w.a->recycle(); }); w.ra = emptyN(1); w.structure_touched = true; } });
      // plain VectorWithOffset arithmetic: ranges must match, else error
      for (char op : { '+', '-', '*', '/' })
        ops.push_back({ std::string("a") + op + "=b (plain vector)", [op](W& w) {
                         if (!all_known(w.ra) || !all_known(w.rb)) return; // would read indeterminate values
                         const bool ok = same_range(w.ra, w.rb);
                         if (ok && op == '/') for (float x : w.rb.val) if (x == 0) return;
                         Node before = w.ra;
                         guarded(w, std::string("operator") + op + "= with " + (ok ? "equal" : "different") + " index ranges", !ok, [&] {
                           if (op == '+') *w.a += *w.b; else if (op == '-') *w.a -= *w.b; else if (op == '*') *w.a *= *w.b; else *w.a /= *w.b; });
                         if (ok) for (int i = 0; i < w.ra.n(); ++i) { int x = (int)w.ra.val[i], y = (int)w.rb.val[i]; w.ra.val[i] = (float)(op == '+' ? x + y : op == '-' ? x - y : op == '*' ? x * y : x / y); }
                       } });
      ops.push_back({ "a via get_data_ptr", [](W& w) { if (w.ra.empty()) return; float v = w.label(); guarded(w, "get_data_ptr", false, [&] { int* p = w.a->get_data_ptr(); p[0] = (int)v; w.a->release_data_ptr(); }); w.ra.val[0] = v; w.ra.known[0] = 1; } });
    }
  else
    {
      for (char op : { '+', '-', '*', '/' })
        ops.push_back({ std::string("a") + op + "=b", [op](W& w) {
                         if (w.rb.empty() || !arith_specified(w.ra, w.rb)) return;
                         guarded(w, std::string("operator") + op + "=", false, [&] {
                           if (op == '+') *w.a += *w.b; else if (op == '-') *w.a -= *w.b; else if (op == '*') *w.a *= *w.b; else *w.a /= *w.b; });
                         if (!same_range(w.ra, w.rb)) w.structure_touched = true; arith(w.ra, w.rb, op);
                       } });
      ops.push_back({ "b+=a", [](W& w) { if (w.ra.empty() || !arith_specified(w.rb, w.ra)) return; guarded(w, "operator+=", false, [&] { *w.b += *w.a; }); arith(w.rb, w.ra, '+'); } });
      ops.push_back({ "a*=2", [](W& w) { guarded(w, "a*=2", false, [&] { *w.a *= 2.f; }); scale_node(w.ra, 2.f, '*'); } });
      ops.push_back({ "a+=1", [](W& w) { guarded(w, "a+=1", false, [&] { *w.a += 1.f; }); scale_node(w.ra, 1.f, '+'); } });
      ops.push_back({ "a.xapyb(a,2,b,3)", [](W& w) {
                       const bool ok = same_range(w.ra, w.rb);
                       guarded(w, std::string("xapyb with ") + (ok ? "equal" : "different") + " index ranges", !ok, [&] { w.a->xapyb(*w.a, 2.f, *w.b, 3.f); });
                       if (ok) { std::vector<float> fa, fb; flatten(w.ra, fa); flatten(w.rb, fb); size_t k = 0; std::function<void(Node&)> f = [&](Node& n) { if (n.d == 1) for (auto& x : n.val) { x = fa[k] * 2.f + fb[k] * 3.f; ++k; } else for (auto& c : n.ch) f(c); }; f(w.ra); }
                     } });
      ops.push_back({ "b.sapyb(2,a,1)", [](W& w) {
                       const bool ok = same_range(w.ra, w.rb);
                       guarded(w, std::string("sapyb with ") + (ok ? "equal" : "different") + " index ranges", !ok, [&] { w.b->sapyb(2.f, *w.a, 1.f); });
                       if (ok) { std::vector<float> fa, fb; flatten(w.ra, fa); flatten(w.rb, fb); size_t k = 0; std::function<void(Node&)> f = [&](Node& n) { if (n.d == 1) for (auto& x : n.val) { x = fb[k] * 2.f + fa[k] * 1.f; ++k; } else for (auto& c : n.ch) f(c); }; f(w.rb); }
                     } });
      ops.push_back({ "a via full_data_ptr", [](W& w) {
                       std::vector<int> c; if (!first_coord(w.ra, c, false)) return;
                       bool anyempty = false; std::function<void(const Node&)> chk = [&](const Node& n) { if (n.empty()) anyempty = true; else if (n.d > 1) for (auto& x : n.ch) chk(x); }; chk(w.ra);
                       if (anyempty) return;
                       float v = w.label();
                       bool contiguous = w.a->is_contiguous();
                       guarded(w, "get_full_data_ptr on a non-contiguous array", !contiguous, [&] { float* p = w.a->get_full_data_ptr(); p[0] = v; w.a->release_full_data_ptr(); });
                       if (contiguous) leaf(w.ra, c) = v;
                       else { if constexpr (TR::N >= 2) w.a->_full_pointer_access = false; }
                     } });
      if constexpr (TR::N >= 2)
        {
          // operations on a sub-array (make the range irregular; exercise nested capacity)
          for (auto r : std::vector<std::pair<int, int>>{ { 0, 0 }, { -1, 3 } })
            ops.push_back({ "a[first].resize(" + vmc::str(r.first) + ":" + vmc::str(r.second) + " ...)", [r](W& w) {
                             if (w.ra.empty()) return;
                             Node& sub = w.ra.ch[0];
                             Node s = sub;
                             // resize only the outermost range of the sub-array (inner ranges: take those of its first child or a 1-d range)
                             if (sub.d == 1) s = mk1(r.first, r.second);
                             else { Node proto = sub.empty() ? zero_like(box(std::vector<std::pair<int,int>>(sub.d - 1, { 0, 1 }))) : zero_like(sub.ch[0]); s = mkN(sub.d, r.first, r.second, std::vector<Node>(r.second - r.first + 1, proto)); }
                             guarded(w, "sub-array resize", false, [&] { do_resize((*w.a)[w.ra.lo], s); });
                             sub = resized(sub, s, true); w.structure_touched = true;
                           } });
          // the same on the LAST sub-array, and (3 and more dimensions) on the last sub-array of the last sub-array: re-allocating a row
          // inside the last outermost slab leaves every other slab where it was (added after seed C11_3: a contiguity test that forgets the
          // last sub-array is only wrong for such an object)
          for (auto r : std::vector<std::pair<int, int>>{ { 0, 0 }, { -1, 3 } })
            ops.push_back({ "a[last].resize(" + vmc::str(r.first) + ":" + vmc::str(r.second) + " ...)", [r](W& w) {
                             if (w.ra.empty()) return;
                             Node& sub = w.ra.ch.back();
                             Node s = sub;
                             if (sub.d == 1) s = mk1(r.first, r.second);
                             else { Node proto = sub.empty() ? zero_like(box(std::vector<std::pair<int,int>>(sub.d - 1, { 0, 1 }))) : zero_like(sub.ch[0]); s = mkN(sub.d, r.first, r.second, std::vector<Node>(r.second - r.first + 1, proto)); }
                             guarded(w, "sub-array resize", false, [&] { do_resize((*w.a)[w.ra.hi], s); });
                             sub = resized(sub, s, true); w.structure_touched = true;
                           } });
          if constexpr (TR::N >= 3)
            for (auto r : std::vector<std::pair<int, int>>{ { 0, 0 }, { -1, 3 } })
              ops.push_back({ "a[last][last].resize(" + vmc::str(r.first) + ":" + vmc::str(r.second) + " ...)", [r](W& w) {
                               if (w.ra.empty() || w.ra.ch.back().empty()) return;
                               Node& mid = w.ra.ch.back();
                               Node& sub = mid.ch.back();
                               Node s = sub;
                               if (sub.d == 1) s = mk1(r.first, r.second);
                               else { Node proto = sub.empty() ? zero_like(box(std::vector<std::pair<int,int>>(sub.d - 1, { 0, 1 }))) : zero_like(sub.ch[0]); s = mkN(sub.d, r.first, r.second, std::vector<Node>(r.second - r.first + 1, proto)); }
                               guarded(w, "sub-sub-array resize", false, [&] { do_resize((*w.a)[w.ra.hi][mid.hi], s); });
                               sub = resized(sub, s, true); w.structure_touched = true;
                             } });
          ops.push_back({ "a[first]=b[last]", [](W& w) { if (w.ra.empty() || w.rb.empty()) return; guarded(w, "sub-array assign", false, [&] { (*w.a)[w.ra.lo] = (*w.b)[w.rb.hi]; }); w.ra.ch[0] = w.rb.ch.back(); w.structure_touched = true; } });
        }
    }
  return ops;
}

// ------------------------------------------------------------------------------------------------ search per kind
template <class T> static void run_kind(vmc::Ctx& ctx, const std::string& kind, bool view, int depth, uint64_t& unit)
{
  using TR = Traits<T>;
  const auto ops = make_ops<T>(ctx.thorough());
  const Node view_shape = TR::shapes(false)[1];
  // unit of sharding: the first operation of the history (each shard explores the sub-tree below its first ops).
  // States are deduplicated inside a shard only => states/transitions are summed over shards (a state reached
  // under two different first operations is counted twice; this only costs time, never hides anything).
  const bool replay = ctx.replaying();
  std::vector<int> replay_hist;
  if (replay)
    {
      auto m = vmc::kv(ctx.replay);
      if (m["kind"] != kind) return;
      replay_hist = vmc::ints(m["h"]);
    }
  auto build = [&](const std::vector<int>& h, std::string& ek, std::string& em) -> std::string {
    ctx.current("kind=" + kind, "kind=" + kind + ";h=" + vmc::join(h));
    if (replay) { std::string names; for (int o : h) names += ops[o].name + "; "; fprintf(stderr, "replaying kind=%s history: %s\n", kind.c_str(), names.c_str()); }
    World<T> w; w.init(view, view_shape);
    w.check_all("init");
    for (size_t i = 0; i < h.size() && !w.err.bad(); ++i)
      {
        w.step = (int)i;
        ops[h[i]].run(w);
        w.check_all(ops[h[i]].name);
      }
    if (w.err.bad())
      {
        ek = "kind=" + kind + ";" + w.err.key;
        std::string names; for (int o : h) names += ops[o].name + "; ";
        em = w.err.msg + "   history: " + names;
        return "";
      }
    std::string c; canon(*w.a, w.ra, c); c += "|"; canon(*w.b, w.rb, c);
    return c;
  };
  auto on_violation = [&](const std::vector<int>& h, const std::string& k, const std::string& m) {
    ctx.violation(k, "kind=" + kind + ";h=" + vmc::join(h), m);
  };
  if (replay)
    {
      std::string ek, em; build(replay_hist, ek, em);
      if (!ek.empty()) on_violation(replay_hist, ek, em);
      return;
    }
  std::set<std::string> outcomes;
  for (int first = 0; first < (int)ops.size(); ++first, ++unit)
    {
      if (!ctx.mine(unit)) continue;
      if (ctx.expired()) return;
      vmc::HistSearch hs;
      hs.nops = (int)ops.size(); hs.max_depth = depth - 1;
      hs.expired = [&] { return ctx.expired(); };
      // histories below `first`: prefix every history with it
      hs.build = [&](const std::vector<int>& h, std::string& ek, std::string& em) { std::vector<int> full; full.push_back(first); full.insert(full.end(), h.begin(), h.end()); return build(full, ek, em); };
      hs.on_violation = [&](const std::vector<int>& h, const std::string& k, const std::string& m) { std::vector<int> full; full.push_back(first); full.insert(full.end(), h.begin(), h.end()); on_violation(full, k, m); };
      hs.on_state = [&](const std::vector<int>& h, const std::string& c) {
        ctx.digest(c);
        if (ctx.samples.size() < 4 && h.size() + 1 == (size_t)depth) { std::string names = ops[first].name + "; "; for (int o : h) names += ops[o].name + "; "; ctx.sample(kind + ": " + names + " => " + c.substr(0, 160)); }
      };
      vmc::HistResult r = hs.run();
      ctx.count("states", r.states);
      ctx.count("transitions", r.transitions + 1);
      ctx.count("traces_validated_against_impl", r.executions);
      ctx.count("states_" + kind, r.states);
      if (!r.complete) ctx.exhaustive = false;
      else ctx.maxi("depth_completed_" + kind, depth);
    }
  ctx.maxi("alphabet_size_" + kind, (long long)ops.size());
}

int main(int argc, char** argv)
{
  vmc::Ctx ctx(argc, argv, "C11");
  ctx.rule = "explicit-state BFS over operation histories of a two-object world (a,b) per container kind; every history replayed on fresh real objects; "
             "state = serialised real objects incl. capacity windows; after every op: comparison with a reference index->value tree through all access paths";
  ctx.assume("NDEBUG build (asserts off) as shipped; preconditions that are only assert()ed (operator[] out of range, grow() to a non-enclosing range, use between get_data_ptr/release) are never violated by the alphabet");
  ctx.assume("x op= v where a non-empty x meets an empty v is left out (unspecified by the property and the documentation)");
  ctx.assume("AddressSanitizer reports every access outside owned storage (viewing arrays sit on exact-size heap blocks)");
  const bool th = ctx.thorough();
  uint64_t unit = 0;
  run_kind<VectorWithOffset<int>>(ctx, "V", false, th ? 5 : 4, unit);
  run_kind<VectorWithOffset<int>>(ctx, "Vv", true, th ? 4 : 3, unit);
  run_kind<Array<1, float>>(ctx, "A1", false, th ? 5 : 3, unit);
  run_kind<Array<1, float>>(ctx, "A1v", true, th ? 4 : 3, unit);
  run_kind<Array<2, float>>(ctx, "A2", false, th ? 4 : 3, unit);
  run_kind<Array<2, float>>(ctx, "A2v", true, th ? 3 : 3, unit);
  run_kind<Array<3, float>>(ctx, "A3", false, th ? 3 : 2, unit);
  run_kind<Array<3, float>>(ctx, "A3v", true, th ? 3 : 2, unit); // a 3-dimensional view starts contiguous (a resize of an empty array never is)
  run_kind<Array<4, float>>(ctx, "A4", false, th ? 3 : 2, unit);
  return ctx.finish();
}
