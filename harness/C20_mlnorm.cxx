// C20 - component-based normalisation: data conversions are lossless, factors multiply, ML steps are fixed points / descend.
//
// Exhaustive configuration x labelled-input enumeration on the real functions of stir/ML_norm.h against the small reference
// model in engine/ref_mlnorm.h.  A work unit is (section, configuration); a configuration is a generated cylindrical scanner
// (with / without virtual crystals), a maximum ring difference and a number of tangential positions (= fan size).
//
//   sec=conv  : labelling projection data (every bin a distinct integer) -> make_fan_data_remove_gaps: EVERY entry
//               (ra,a,rb,b) of the fan == value of the bin ProjDataInfoCylindricalNoArcCorr::get_bin_for_det_pair assigns to the
//               pair (after renumbering physical -> with-gaps crystals); set_fan_data_add_gaps(make_fan(.)) restores every
//               covered bin and writes gap_value (two values) into every covered bin that involves a virtual crystal;
//               multiply_crystal_factors: every bin == global * eff[det1]*eff[det2]; BinNormalisationPETFromComponents:
//               get_bin_efficiency(bin) == eps_i eps_j g_ij B_ij (0 in gaps) for every covered bin.
//   sec=apply : apply_efficiencies / apply_block_norm / apply_geo_norm on labelled fan data: every entry is multiplied by the
//               product of its two detectors' factors / its block pair's factor / its geometric class' factor;
//               apply(false) o apply(true) == identity.
//   sec=ml    : model-generated data => parameters are a fixed point of iterate_efficiencies (both versions),
//               iterate_geo_norm, iterate_block_norm; for symmetric data and every enumerated start the KL distance (each LOR
//               once, double precision reference; and STIR's own KL()) does not increase over an efficiency iteration.
#include "vmc.h"
#include "stir_small.h"
#include "ref_mlnorm.h"
#include "stir/ML_norm.h"
#include "stir/multiply_crystal_factors.h"
#include "stir/recon_buildblock/BinNormalisationPETFromComponents.h"
#include "stir/recon_buildblock/ML_estimate_component_based_normalisation.h"
#include "stir/SegmentBySinogram.h"
#include "stir/Succeeded.h"
#include "stir/stream.h"
#include <cstdio>
#include <limits>
#include <memory>

using namespace stir;
using namespace mlref;

static const double EPSF = std::numeric_limits<float>::epsilon();

static bool close_rel(double impl, double ref, double c_eps) { return std::fabs(impl - ref) <= c_eps * EPSF * std::fabs(ref); }

static std::string ent(int ra, int a, int rb, int b)
{
  return "(ra=" + vmc::str(ra) + ",a=" + vmc::str(a) + ",rb=" + vmc::str(rb) + ",b=" + vmc::str(b) + ")";
}

// ================================================================================================================
// sec=conv
// ================================================================================================================
struct Labels
{
  const ProjDataInfo* p;
  std::map<int, long> base;
  int nv, nt, mint;
  explicit Labels(const ProjDataInfo& pdi) : p(&pdi)
  {
    nv = pdi.get_num_views(); nt = pdi.get_num_tangential_poss(); mint = pdi.get_min_tangential_pos_num();
    long n = 0;
    for (int s = pdi.get_min_segment_num(); s <= pdi.get_max_segment_num(); ++s) { base[s] = n; n += (long)pdi.get_num_axial_poss(s) * nv * nt; }
  }
  float operator()(const Bin& b) const
  {
    return float(1 + base.at(b.segment_num())
                 + ((long)(b.axial_pos_num() - p->get_min_axial_pos_num(b.segment_num())) * nv + b.view_num()) * nt + (b.tangential_pos_num() - mint));
  }
};

static void fill_labels(ProjData& pd, const Labels& lab)
{
  const ProjDataInfo& p = *pd.get_proj_data_info_sptr();
  for (int s = p.get_min_segment_num(); s <= p.get_max_segment_num(); ++s)
    {
      SegmentBySinogram<float> seg = p.get_empty_segment_by_sinogram(s);
      for (int ax = p.get_min_axial_pos_num(s); ax <= p.get_max_axial_pos_num(s); ++ax)
        for (int v = p.get_min_view_num(); v <= p.get_max_view_num(); ++v)
          for (int t = p.get_min_tangential_pos_num(); t <= p.get_max_tangential_pos_num(); ++t) seg[ax][v][t] = lab(Bin(s, v, ax, t));
      pd.set_segment(seg);
    }
}

// visit every bin with its value
template <class Fn> static void for_all_bins(const ProjData& pd, Fn fn)
{
  const ProjDataInfo& p = *pd.get_proj_data_info_sptr();
  for (int s = p.get_min_segment_num(); s <= p.get_max_segment_num(); ++s)
    {
      const SegmentBySinogram<float> seg = pd.get_segment_by_sinogram(s);
      for (int ax = p.get_min_axial_pos_num(s); ax <= p.get_max_axial_pos_num(s); ++ax)
        for (int v = p.get_min_view_num(); v <= p.get_max_view_num(); ++v)
          for (int t = p.get_min_tangential_pos_num(); t <= p.get_max_tangential_pos_num(); ++t) fn(Bin(s, v, ax, t), seg[ax][v][t]);
    }
}

static void sec_conv(vmc::Ctx& ctx, const Cfg& c)
{
  const std::string kase = cfg_str(c);
  ctx.current("sec=conv", kase);
  shared_ptr<Scanner> sc;
  shared_ptr<ProjDataInfo> pdi;
  std::string why;
  if (small::throws(
          [&] {
            sc = make_scanner(c);
            if (sc->check_consistency() != Succeeded::yes) error("scanner inconsistent");
            pdi = small::make_pdi(sc, 1, c.md, sc->get_num_detectors_per_ring() / 2, c.tangs, false, 0);
          },
          &why))
    {
      ctx.count("rejected_configs");
      ctx.observe("configuration rejected by STIR: " + kase + " : " + why.substr(0, 120));
      return;
    }
  const Layout L = layout_of(*sc);
  auto* P = dynamic_cast<const ProjDataInfoCylindricalNoArcCorr*>(pdi.get());
  if (!P || pdi->get_max_segment_num() != c.md || pdi->get_min_segment_num() != -c.md || pdi->get_num_tangential_poss() != c.tangs
      || pdi->get_num_views() != L.D / 2 || pdi->get_min_view_num() != 0 || pdi->is_tof_data())
    {
      ctx.count("rejected_configs");
      ctx.observe("geometry generator did not give the requested sampling: " + kase);
      return;
    }
  const std::string gaps = L.vt && L.va ? "transaxial+axial" : L.vt ? "transaxial" : L.va ? "axial" : "none";
  const std::string ktail = ";gaps=" + gaps;
  // ---- fan dimensions as documented in make_fan_data_remove_gaps (needed to screen assert-only preconditions BEFORE calling)
  const int hfs = std::min(pdi->get_max_tangential_pos_num(), -pdi->get_min_tangential_pos_num());
  const int fan_size = 2 * hfs + 1;
  const int new_fan = fan_size - (fan_size / L.tb) * L.vt, new_h = new_fan / 2;
  const int new_md = c.md - (c.md / L.ab) * L.va;
  if (L.Dp % 2 != 0 || 2 * new_h + 1 >= L.Dp || new_md >= L.Rp || L.ptb < 1 || L.pab < 1)
    {
      ctx.count("skipped_assert_only_precondition"); // FanProjData asserts: even #detectors, fan_size < #detectors, max_ring_diff < #rings
      return;
    }
  Fan F; F.R = L.Rp; F.D = L.Dp; F.md = new_md; F.h = new_h;

  shared_ptr<ProjDataInMemory> pd = small::make_projdata(pdi, 0.F);
  const Labels lab(*pdi);
  fill_labels(*pd, lab);

  // ---- screen (inputs only): every covered bin between physical crystals must map INSIDE the fan array STIR is going to
  //      allocate; otherwise make_fan_data would index out of range (no range check in FanProjData::operator())
  long covered = 0, covered_gap = 0, outside_fan_bins = 0, outside_array = 0;
  for_all_bins(*pd, [&](const Bin& b, float) {
    if (std::abs(b.tangential_pos_num()) > hfs) { ++outside_fan_bins; return; }
    int a, ra, bb, rb;
    P->get_det_pair_for_bin(a, ra, bb, rb, b);
    if (L.det_is_virtual(a) || L.det_is_virtual(bb) || L.ring_is_virtual(ra) || L.ring_is_virtual(rb)) { ++covered_gap; return; }
    ++covered;
    const int pa = L.det_physical(a), pb = L.det_physical(bb), pra = L.ring_physical(ra), prb = L.ring_physical(rb);
    if (F.k_of(pa, pb) > F.h || std::abs(pra - prb) > F.md) ++outside_array;
  });
  if (outside_array)
    {
      ctx.count("skipped_pair_outside_fan_array");
      ctx.observe("NOT EXECUTED (would index FanProjData out of range): " + kase + " : " + vmc::str(outside_array)
                  + " covered bins map to a physical detector pair outside the fan array make_fan_data_remove_gaps allocates");
      return;
    }

  FanProjData fan;
  if (small::throws([&] { make_fan_data_remove_gaps(fan, *pd); }, &why))
    {
      ctx.count("rejected_configs");
      ctx.observe("make_fan_data_remove_gaps rejected: " + kase + " : " + why.substr(0, 120));
      return;
    }
  ctx.count("evaluations");
  ctx.count("configs_conv");
  if (L.gaps()) ctx.count("configs_conv_with_gaps");
  if (fan.get_num_rings() != L.Rp || fan.get_num_detectors_per_ring() != L.Dp)
    {
      ctx.violation("clause=make_fan;kind=not_physical_dimensions" + ktail, kase,
                    "fan data has " + vmc::str(fan.get_num_rings()) + " rings x " + vmc::str(fan.get_num_detectors_per_ring()) + " detectors, the scanner has "
                        + vmc::str(L.Rp) + " x " + vmc::str(L.Dp) + " physical crystals");
      return;
    }
  {
    const Fan Fi = fan_of(fan);
    if (Fi.md != F.md || Fi.h != F.h)
      {
        ctx.count("fan_dims_differ_from_documented_formula");
        ctx.observe("fan array dimensions differ from the formula in make_fan_data_remove_gaps: " + kase);
        return;
      }
  }
  // ---- clause make_fan: every entry == value of the bin the geometry assigns to the pair
  long checked = 0, swapped_n = 0, nobin = 0, bad = 0;
  std::string first_bad;
  for_all(F, [&](int pra, int pa, int prb, int, int pb) {
    const int a = L.det_with_gaps(pa), b = L.det_with_gaps(pb), ra = L.ring_with_gaps(pra), rb = L.ring_with_gaps(prb);
    Bin bin;
    if (P->get_bin_for_det_pair(bin, a, ra, b, rb) != Succeeded::yes || std::abs(bin.segment_num()) > c.md
        || std::abs(bin.tangential_pos_num()) > hfs)
      { ++nobin; return; }
    bin.timing_pos_num() = 0;
    ++checked;
    if ((bin.segment_num() > 0) != (rb > ra) && bin.segment_num() != 0) ++swapped_n;
    const float want = lab(bin), got = fan(pra, pa, prb, pb);
    if (got != want && !bad++)
      first_bad = "entry " + ent(pra, pa, prb, pb) + " (with gaps: " + ent(ra, a, rb, b) + ") is " + vmc::str(got) + " but bin " + small::bin_str(bin) + " holds " + vmc::str(want);
  });
  ctx.count("fan_entries_checked", checked);
  ctx.count("fan_entries_reached_with_swapped_detectors", swapped_n);
  ctx.count("fan_entries_without_bin_in_data", nobin);
  ctx.count("bins_covered_physical", covered);
  ctx.count("bins_covered_in_gap", covered_gap);
  ctx.count("bins_outside_fan_not_checked", outside_fan_bins);
  if (checked != 2 * covered)
    ctx.violation("clause=make_fan;kind=coverage" + ktail, kase,
                  vmc::str(covered) + " covered physical bins but " + vmc::str(checked) + " fan entries have a bin (expected 2 per bin)");
  if (bad) ctx.violation("clause=make_fan;kind=wrong_value" + ktail, kase, vmc::str(bad) + " of " + vmc::str(checked) + " entries wrong, first: " + first_bad);
  if (c.md > 0 && hfs > 0) ctx.nontrivial(kase);
  if (ctx.samples.size() < 2 && L.gaps() && c.md > 0 && hfs > 1)
    ctx.sample(kase + " : " + vmc::str(checked) + " fan entries == labelled bins, " + vmc::str(covered_gap) + " covered bins in gaps, fan array " + vmc::str(F.R) + "x"
               + vmc::str(F.D) + " md " + vmc::str(F.md) + " half fan " + vmc::str(F.h));

  // ---- clause roundtrip: set_fan_data_add_gaps(make_fan_data(.)) restores covered bins, fills gaps as requested
  for (float g : { 0.F, -3.F })
    {
      shared_ptr<ProjDataInMemory> pd2 = small::make_projdata(pdi, -7.F);
      set_fan_data_add_gaps(*pd2, fan, g);
      ctx.count("evaluations");
      long changed = 0, gapbad = 0, zeroed_outside = 0;
      std::string first;
      for_all_bins(*pd2, [&](const Bin& b, float v) {
        if (std::abs(b.tangential_pos_num()) > hfs) { if (v == 0.F) ++zeroed_outside; return; }
        int a, ra, bb, rb;
        P->get_det_pair_for_bin(a, ra, bb, rb, b);
        const bool gap = L.det_is_virtual(a) || L.det_is_virtual(bb) || L.ring_is_virtual(ra) || L.ring_is_virtual(rb);
        if (gap) { if (v != g && !gapbad++) first = "gap bin " + small::bin_str(b) + " is " + vmc::str(v) + ", requested gap value " + vmc::str(g); }
        else if (v != lab(b) && !changed++) first = "bin " + small::bin_str(b) + " was " + vmc::str(lab(b)) + " and is " + vmc::str(v) + " after the round trip";
      });
      if (changed) ctx.violation("clause=roundtrip;kind=covered_bin_changed" + ktail, kase + ";gapvalue=" + vmc::str(g), vmc::str(changed) + " covered bins changed, first: " + first);
      if (gapbad) ctx.violation("clause=roundtrip;kind=gap_not_filled_as_requested" + ktail, kase + ";gapvalue=" + vmc::str(g), vmc::str(gapbad) + " gap bins wrong, first: " + first);
      if (zeroed_outside) ctx.observe("set_fan_data_add_gaps writes 0 (not gap_value, not the old value) into bins outside the fan (|tangential pos| > half fan size); the property is silent, not checked");
    }

  // ---- multiply_crystal_factors: every bin (span 1: one detector pair) == global * eff[det1] * eff[det2]
  {
    std::vector<double> e = eff_pattern(L.R * L.D, 1);
    Array<2, float> E(IndexRange2D(L.R, L.D));
    for (int r = 0; r < L.R; ++r) for (int a = 0; a < L.D; ++a) E[r][a] = (float)e[r * L.D + a];
    shared_ptr<ProjDataInMemory> pd3 = small::make_projdata(pdi, -7.F);
    multiply_crystal_factors(*pd3, E, 0.5F);
    ctx.count("evaluations");
    long wrong = 0, n = 0; std::string first;
    for_all_bins(*pd3, [&](const Bin& b, float v) {
      int a, ra, bb, rb;
      P->get_det_pair_for_bin(a, ra, bb, rb, b);
      const double ref = 0.5 * double(E[ra][a]) * double(E[rb][bb]);
      ++n;
      if (!close_rel(v, ref, 4) && !wrong++) first = "bin " + small::bin_str(b) + " detectors " + ent(ra, a, rb, bb) + " is " + vmc::str(v) + " expected " + vmc::str(ref);
    });
    ctx.count("crystal_factor_bins_checked", n);
    if (wrong) ctx.violation("clause=multiply_crystal_factors;kind=wrong_product", kase, vmc::str(wrong) + " of " + vmc::str(n) + " bins wrong, first: " + first);

    // compressed data (documented: bin = global * SUM over the crystal pairs of the bin): axial compression span 3 (when the
    // configuration has max ring difference 1) and view mashing 2; the pairs of a bin are found by inverting get_bin_for_det_pair
    // over ALL unordered crystal pairs (independent of get_all_det_pos_pairs_for_bin, which the implementation uses)
    auto compressed = [&](int span, int mash, const std::string& tag) {
      shared_ptr<ProjDataInfo> q;
      if (small::throws([&] { q = small::make_pdi(sc, span, c.md, L.D / 2 / mash, c.tangs, false, 0); }, &why)) { ctx.count("rejected_configs"); return; }
      auto* Q = dynamic_cast<const ProjDataInfoCylindricalNoArcCorr*>(q.get());
      if (!Q || Q->get_view_mashing_factor() != mash) { ctx.count("rejected_configs"); return; }
      shared_ptr<ProjDataInMemory> pq = small::make_projdata(q, -7.F);
      multiply_crystal_factors(*pq, E, 0.5F);
      ctx.count("evaluations");
      std::map<std::vector<int>, std::pair<double, int>> ref;
      for (int ra = 0; ra < L.R; ++ra) for (int a = 0; a < L.D; ++a) for (int rb = ra; rb < L.R; ++rb) for (int b = 0; b < L.D; ++b)
        {
          if (a == b || (ra == rb && b < a)) continue; // every unordered pair of different crystals once; a==b is not a LOR
          Bin bin;
          if (Q->get_bin_for_det_pair(bin, a, ra, b, rb) != Succeeded::yes) continue;
          auto& r = ref[{ bin.segment_num(), bin.axial_pos_num(), bin.view_num(), bin.tangential_pos_num() }];
          r.first += 0.5 * double(E[ra][a]) * double(E[rb][b]); r.second++;
        }
      long wrong = 0, n = 0, multi = 0; std::string first;
      for_all_bins(*pq, [&](const Bin& b, float v) {
        auto it = ref.find({ b.segment_num(), b.axial_pos_num(), b.view_num(), b.tangential_pos_num() });
        const double want = it == ref.end() ? 0.0 : it->second.first;
        const int terms = it == ref.end() ? 0 : it->second.second;
        ++n; if (terms > 1) ++multi;
        if (!close_rel(v, want, 8.0 * (terms + 1)) && !wrong++) first = "bin " + small::bin_str(b) + " is " + vmc::str(v) + " expected " + vmc::str(want) + " (sum over " + vmc::str(terms) + " crystal pairs)";
      });
      ctx.count("crystal_factor_compressed_bins_checked", n);
      ctx.count("crystal_factor_compressed_bins_with_several_pairs", multi);
      if (wrong) ctx.violation("clause=multiply_crystal_factors;kind=wrong_sum_of_products;compression=" + tag, kase, vmc::str(wrong) + " of " + vmc::str(n) + " bins wrong, first: " + first);
    };
    if (c.st < 10 && c.md == 1 && L.R >= 2) compressed(3, 1, "span3");
    if (c.st < 10 && (L.D / 2) % 2 == 0) compressed(1, 2, "mash2");
  }

  // ---- BinNormalisationPETFromComponents: efficiency model eps_i eps_j g_ij B_ij on the covered bins, 0 in gaps
  {
    // symmetry unit as documented for allocate(..., do_symmetry_per_block=false)
    int unit_t = L.ptb, unit_a = L.pab;
    if (sc->get_num_transaxial_buckets() > 1) unit_t *= sc->get_num_transaxial_blocks_per_bucket();
    if (sc->get_num_axial_buckets() > 1) unit_a *= sc->get_num_axial_blocks_per_bucket();
    const int tcb_u = 2 * (unit_t / 2);
    const bool do_geo = tcb_u >= 2 && F.D % tcb_u == 0 && F.R % unit_a == 0 && (double)F.R * F.D * F.R * F.D <= 3.0e6;
    Blocks B; B.nab = L.nab; B.ntb = L.ntb; B.acb = L.pab; B.tcb = L.ptb;
    bool do_block = L.ntb % 2 == 0 && L.ntb >= 2 && F.R == L.nab * L.pab && F.D == L.ntb * L.ptb;
    if (do_block)
      for (int a = 0; a < F.D && do_block; ++a)
        for (int k = -F.h; k <= F.h; ++k) if (F.b_of(a, k) / B.tcb == a / B.tcb) { do_block = false; break; }
    if (!do_geo) ctx.count("binnorm_configs_without_geo(symmetry_unit_does_not_tile_or_too_big)");
    if (!do_block) ctx.count("binnorm_configs_without_block(odd_block_count_or_same_block_pairs_in_fan)");
    BinNormalisationPETFromComponents norm;
    std::unique_ptr<Orbits> O;
    std::vector<double> e = eff_pattern(F.ndet(), 2);
    bool ok = true;
    if (small::throws(
            [&] {
              norm.allocate(pdi, true, do_geo, do_block, false);
              norm.crystal_efficiencies() = to_stir_eff(F, e);
              if (do_geo)
                {
                  GeoData3D& g = norm.geometric_factors();
                  if (g.get_num_axial_crystals_per_block() != unit_a || g.get_half_num_transaxial_crystals_per_block() * 2 != tcb_u) { ok = false; return; }
                  O.reset(new Orbits(F.R, F.D, unit_a, tcb_u));
                  fill_geo_data(g, *O);
                }
              if (do_block) fill_block_data(norm.block_factors(), B);
              shared_ptr<ExamInfo> ex(new ExamInfo);
              if (norm.set_up(ex, pdi) != Succeeded::yes) error("set_up returned Succeeded::no");
            },
            &why))
      {
        ctx.count("rejected_configs");
        ctx.observe("BinNormalisationPETFromComponents rejected: " + kase + " : " + why.substr(0, 120));
      }
    else if (!ok) ctx.observe("BinNormalisationPETFromComponents::allocate made a symmetry unit different from the documented one: " + kase);
    else
      {
        ctx.count("evaluations");
        ctx.count("binnorm_configs");
        long wrong = 0, n = 0, ngap = 0; std::string first;
        for_all_bins(*pd, [&](const Bin& b, float) {
          if (std::abs(b.tangential_pos_num()) > hfs) return;
          int a, ra, bb, rb;
          P->get_det_pair_for_bin(a, ra, bb, rb, b);
          const bool gap = L.det_is_virtual(a) || L.det_is_virtual(bb) || L.ring_is_virtual(ra) || L.ring_is_virtual(rb);
          double ref = 0;
          if (!gap)
            {
              const int pa = L.det_physical(a), pb = L.det_physical(bb), pra = L.ring_physical(ra), prb = L.ring_physical(rb);
              ref = double((float)e[F.det(pra, pa)]) * double((float)e[F.det(prb, pb)]);
              if (do_geo) ref *= O->G(pra, pa, prb, pb);
              if (do_block) ref *= B.F(pra, pa, prb, pb);
            }
          else ++ngap;
          ++n;
          const float v = norm.get_bin_efficiency(b);
          if (!close_rel(v, ref, 16) && !wrong++)
            first = "bin " + small::bin_str(b) + " detectors (with gaps) " + ent(ra, a, rb, bb) + (gap ? " [gap]" : "") + " efficiency " + vmc::str(v) + " expected " + vmc::str(ref);
        });
        ctx.count("binnorm_bins_checked", n);
        ctx.count("binnorm_gap_bins_checked", ngap);
        if (wrong)
          ctx.violation(std::string("clause=binnorm_components;kind=wrong_efficiency;geo=") + (do_geo ? "1" : "0") + ";block=" + (do_block ? "1" : "0") + ktail, kase,
                        vmc::str(wrong) + " of " + vmc::str(n) + " covered bins wrong, first: " + first);
      }

    // ---- the driver ML_estimate_component_based_normalisation: measured = c^2 * model  =>  its own initialisation
    //      (efficiencies c, geometric factors 1, block factors 1) is a fixed point of all its iterations.
    //      Only where every entry of the fan array has a bin (then every fan / class / block sum of the model is > 0).
    if (do_geo && do_block && c.st < 10)
      {
        shared_ptr<ProjDataInMemory> model = small::make_projdata(pdi, 0.F), meas = small::make_projdata(pdi, 0.F);
        {
          const ProjDataInfo& p = *pdi;
          for (int s = p.get_min_segment_num(); s <= p.get_max_segment_num(); ++s)
            {
              SegmentBySinogram<float> m = p.get_empty_segment_by_sinogram(s), d = p.get_empty_segment_by_sinogram(s);
              for (int ax = p.get_min_axial_pos_num(s); ax <= p.get_max_axial_pos_num(s); ++ax)
                for (int v = p.get_min_view_num(); v <= p.get_max_view_num(); ++v)
                  for (int t = p.get_min_tangential_pos_num(); t <= p.get_max_tangential_pos_num(); ++t)
                    { m[ax][v][t] = 1.F + float(long(lab(Bin(s, v, ax, t))) % 5); d[ax][v][t] = 4.F * m[ax][v][t]; }
              model->set_segment(m); meas->set_segment(d);
            }
        }
        const std::string prefix = ctx.tmpdir + "/c20ml_" + vmc::str(ctx.shard);
        if (small::throws([&] { ML_estimate_component_based_normalisation(prefix, *meas, *model, 2, 2, true, true, false, false, false); }, &why))
          {
            ctx.count("rejected_configs");
            ctx.observe("ML_estimate_component_based_normalisation rejected: " + kase + " : " + why.substr(0, 120));
          }
        else
          {
            ctx.count("evaluations");
            ctx.count("ml_estimate_driver_runs");
            const double tol = 64.0 * ((2 * F.md + 1) * F.nk() + 4 * L.nab * L.ntb + B.acb * B.tcb * B.acb * B.tcb + 4);
            DetectorEfficiencies E2; GeoData3D G2; BlockData3D B2;
            bool readok = true;
            { std::ifstream f(prefix + "_eff_2_2.out"); f >> E2; readok = readok && bool(f); }
            { std::ifstream f(prefix + "_geo_2.out"); f >> G2; readok = readok && bool(f); }
            { std::ifstream f(prefix + "_block_2.out"); f >> B2; readok = readok && bool(f); }
            for (const char* s : { "_eff_1_1.out", "_eff_1_2.out", "_eff_2_1.out", "_eff_2_2.out", "_geo_1.out", "_geo_2.out", "_block_1.out", "_block_2.out" }) std::remove((prefix + s).c_str());
            if (!readok || E2.get_length() != F.R || E2[0].get_length() != F.D)
              ctx.violation("clause=fixed_point;component=driver;kind=output_unreadable" + ktail, kase, "cannot read back the files written by ML_estimate_component_based_normalisation");
            else
              {
                long w = 0; std::string first;
                // a crystal without any covered bin has fan sum 0 => efficiency 0; a class / block pair without any covered bin => factor 0
                std::vector<char> has(F.ndet(), 0);
                for_all(F, [&](int ra, int a, int rb, int, int b) {
                  Bin bin;
                  if (P->get_bin_for_det_pair(bin, L.det_with_gaps(a), L.ring_with_gaps(ra), L.det_with_gaps(b), L.ring_with_gaps(rb)) == Succeeded::yes
                      && std::abs(bin.segment_num()) <= c.md && std::abs(bin.tangential_pos_num()) <= hfs)
                    has[F.det(ra, a)] = 1;
                });
                const bool full = nobin == 0;
                if (!full) ctx.count("ml_estimate_driver_runs_with_empty_fan_entries");
                for (int r = 0; r < F.R; ++r) for (int a = 0; a < F.D; ++a)
                  {
                    const double want = has[F.det(r, a)] ? 2.0 : 0.0;
                    if (!close_rel(E2[r][a], want, tol) && !w++) first = "efficiency[" + vmc::str(r) + "][" + vmc::str(a) + "] = " + vmc::str(E2[r][a]) + " expected " + vmc::str(want);
                  }
                auto one_or_empty = [&](double v) { return close_rel(v, 1.0, tol) || (!full && v == 0.0); };
                for (int ra = 0; ra < unit_a; ++ra) for (int a = 0; a < tcb_u / 2; ++a) for (int rb = ra; rb <= F.rb_hi(ra); ++rb) for (int k = -F.h; k <= F.h; ++k)
                  { const int b = F.b_of(a, k); if (!one_or_empty(G2(ra, a, rb, b)) && !w++) first = "geo" + ent(ra, a, rb, b) + " = " + vmc::str(G2(ra, a, rb, b)) + " expected 1"; }
                for_all(F, [&](int ra, int a, int rb, int, int b) {
                  if (ra > rb) return;
                  const float v = B2(ra / B.acb, a / B.tcb, rb / B.acb, b / B.tcb);
                  if (!one_or_empty(v) && !w++) first = "block factor of entry " + ent(ra, a, rb, b) + " = " + vmc::str(v) + " expected 1";
                });
                if (w) ctx.violation("clause=fixed_point;component=driver;kind=moved" + ktail, kase, vmc::str(w) + " parameters moved away from (eff 2, geo 1, block 1) for measured = 4 x model, first: " + first);
              }
          }
      }
    else ctx.count("ml_estimate_driver_not_run(no_geo_or_no_block_or_predefined)");
  }
}

// ================================================================================================================
// helpers for sec=apply and sec=ml (fan data made directly, as ML_estimate_component_based_normalisation works on them)
// ================================================================================================================
struct FanCfg
{
  Fan F; Blocks B; bool geo_ok = false, block_ok = false;
};
static bool fan_cfg(vmc::Ctx& ctx, const Cfg& c, FanCfg& fc)
{
  if (c.st != 0 || c.tangs % 2 != 1 || c.D % 2 || c.tangs >= c.D || c.md >= c.R || c.D % c.tb || c.R % c.ab)
    {
      ctx.count("skipped_assert_only_precondition");
      return false;
    }
  fc.F.R = c.R; fc.F.D = c.D; fc.F.md = c.md; fc.F.h = c.tangs / 2;
  fc.B.nab = c.R / c.ab; fc.B.ntb = c.D / c.tb; fc.B.acb = c.ab; fc.B.tcb = c.tb;
  fc.geo_ok = c.tb % 2 == 0; // GeoData3D stores half a block transaxially
  fc.block_ok = fc.B.ntb % 2 == 0; // BlockData3D is a FanProjData over blocks: asserts an even number per ring
  if (fc.block_ok)
    for (int a = 0; a < c.D && fc.block_ok; ++a)
      for (int k = -fc.F.h; k <= fc.F.h; ++k)
        if (fc.F.b_of(a, k) / c.tb == a / c.tb) { fc.block_ok = false; break; } // same-block pair: outside BlockData3D's fan, accessor unchecked
  return true;
}
static std::vector<double> labelled(const Fan& F)
{
  std::vector<double> v(F.size(), 0.0);
  for_all(F, [&](int ra, int a, int rb, int k, int b) { v[F.idx(ra, a, rb, k)] = F.lor_label(ra, a, rb, b); });
  return v;
}
static FanProjData make_fan(const Fan& F, const std::vector<double>& v)
{
  FanProjData f(F.R, F.D, F.md, 2 * F.h + 1);
  write_fan(F, f, v);
  return f;
}
// list of efficiency vectors: patterns + <=2 deviating detectors on a base of 1
struct EffCase { std::vector<double> e; std::string name; };
static std::vector<EffCase> eff_cases(const Fan& F, bool with_pairs, bool with_primes)
{
  std::vector<EffCase> L;
  const int N = F.ndet();
  L.push_back({ eff_pattern(N, 0), "ones" });
  if (with_primes) L.push_back({ eff_pattern(N, 1), "primes" });
  L.push_back({ eff_pattern(N, 2), "pattern2" });
  const double vals[2] = { 0.5, 2.0 };
  for (int i = 0; i < N; ++i)
    for (double v : vals) { EffCase c{ eff_pattern(N, 0), "dev:" + vmc::str(i) + "=" + vmc::str(v) }; c.e[i] = v; L.push_back(c); }
  if (with_pairs)
    for (int i = 0; i < N; ++i)
      for (int j = i + 1; j < N; ++j)
        for (double v : vals)
          for (double w : vals)
            { EffCase c{ eff_pattern(N, 0), "dev:" + vmc::str(i) + "=" + vmc::str(v) + "," + vmc::str(j) + "=" + vmc::str(w) }; c.e[i] = v; c.e[j] = w; L.push_back(c); }
  return L;
}

// compare a FanProjData entry by entry with reference values; returns number of wrong entries
static long compare_fan(const Fan& F, const FanProjData& f, const std::vector<double>& ref, double c_eps, std::string& first)
{
  long wrong = 0;
  for_all(F, [&](int ra, int a, int rb, int k, int b) {
    const double got = f(ra, a, rb, b), want = ref[F.idx(ra, a, rb, k)];
    if (!close_rel(got, want, c_eps) && !wrong++) first = "entry " + ent(ra, a, rb, b) + " is " + vmc::str(got) + " expected " + vmc::str(want);
  });
  return wrong;
}

// ================================================================================================================
// sec=apply
// ================================================================================================================
static void sec_apply(vmc::Ctx& ctx, const Cfg& c)
{
  const std::string kase = cfg_str(c);
  ctx.current("sec=apply", kase);
  FanCfg fc;
  if (!fan_cfg(ctx, c, fc)) return;
  const Fan& F = fc.F;
  ctx.count("configs_apply");
  if (F.md > 0 && F.h > 0) ctx.nontrivial(kase);
 // data set 0: labelled (every LOR a distinct integer), all factor cases; data set 1: counts {0,1,2,7} (zeros stay zero), pattern cases only
 for (int dsi = 0; dsi < 2; ++dsi)
 {
  std::vector<double> v0 = labelled(F);
  if (dsi == 1) { const int alphabet[4] = { 0, 1, 2, 7 }; for_all(F, [&](int ra, int a, int rb, int k, int b) { v0[F.idx(ra, a, rb, k)] = alphabet[(F.lor_id(ra, a, rb, b) * 5 + 3) % 4]; }); }
  const std::string kase = cfg_str(c) + ";data=" + (dsi ? "counts0127" : "labelled");
  const FanProjData f0 = make_fan(F, v0);
  std::string first;
  if (compare_fan(F, f0, v0, 0, first))
    {
      ctx.violation("clause=fan_accessor;kind=symmetric_write_read", kase, "writing a symmetric labelled data set through FanProjData::operator() and reading it back differs: " + first);
      return;
    }
  // ---- efficiencies
  const bool pairs = F.ndet() <= (ctx.thorough() ? 64 : 24);
  std::vector<EffCase> ecs = eff_cases(F, pairs && dsi == 0, true);
  if (dsi == 1) ecs.resize(3);
  for (const EffCase& ec : ecs)
    {
      const DetectorEfficiencies E = to_stir_eff(F, ec.e);
      std::vector<double> ref(F.size());
      for_all(F, [&](int ra, int a, int rb, int k, int b) { ref[F.idx(ra, a, rb, k)] = v0[F.idx(ra, a, rb, k)] * double(E[ra][a]) * double(E[rb][b]); });
      FanProjData f = f0;
      apply_efficiencies(f, E, true);
      ctx.count("evaluations");
      ctx.count("apply_efficiencies_cases");
      long w = compare_fan(F, f, ref, 4, first);
      if (w) ctx.violation("clause=apply_efficiencies;kind=not_product_of_two_detectors", kase + ";eff=" + ec.name, vmc::str(w) + " entries wrong, first: " + first);
      apply_efficiencies(f, E, false);
      w = compare_fan(F, f, v0, 8, first);
      if (w) ctx.violation("clause=unapply_efficiencies;kind=not_restored", kase + ";eff=" + ec.name, vmc::str(w) + " entries not restored, first: " + first);
    }
  // ---- block factors
  if (!fc.block_ok)
    {
      if (dsi == 0) ctx.count("apply_configs_without_block(odd_block_count_or_same_block_pairs_in_fan)");
      if (fc.B.ntb % 2 == 0)
        ctx.observe("NOT EXECUTED: fans that contain a detector pair inside one block (half fan size > D/2 - crystals per block): BlockData3D(nab, ntb, nab-1, ntb-1) has no entry for "
                    "a block paired with itself and FanProjData::operator() is unchecked, so apply_block_norm / make_block_data (called unconditionally by "
                    "ML_estimate_component_based_normalisation) index out of range there (confirmed once with ASan: heap-buffer-overflow in make_block_data for 8 detectors, 2 blocks, fan 7); "
                    "treated as an undocumented precondition");
    }
  else
    {
      const Blocks& B = fc.B;
      BlockData3D bd(B.nab, B.ntb, B.nab - 1, B.ntb - 1);
      // labelled symmetric factors, then a base of 1 with one deviating block pair (every pair x {0.5, 2})
      std::vector<std::pair<long, double>> cases; cases.push_back({ -2, 0 });
      {
        std::set<long> ids;
        Fan BF = fan_of(bd);
        for_all(BF, [&](int rA, int A, int rB, int, int Bb) { const long i = rA * B.ntb + A, j = rB * B.ntb + Bb; ids.insert(std::min(i, j) * B.nblk() + std::max(i, j)); });
        for (long id : ids) { cases.push_back({ id, 0.5 }); cases.push_back({ id, 2.0 }); }
      }
      if (dsi == 1) cases.resize(1);
      for (auto& bc : cases)
        {
          std::vector<double> ref(F.size());
          if (bc.first == -2) fill_block_data(bd, B);
          else { bd.fill(1.F); Fan BF = fan_of(bd); for_all(BF, [&](int rA, int A, int rB, int, int Bb) { const long i = rA * B.ntb + A, j = rB * B.ntb + Bb; if (std::min(i, j) * B.nblk() + std::max(i, j) == bc.first) bd(rA, A, rB, Bb) = (float)bc.second; }); }
          long hit = 0;
          for_all(F, [&](int ra, int a, int rb, int k, int b) {
            double fct;
            if (bc.first == -2) fct = B.F(ra, a, rb, b);
            else { const long i = B.blk(ra, a), j = B.blk(rb, b); fct = (std::min(i, j) * B.nblk() + std::max(i, j) == bc.first) ? bc.second : 1.0; if (fct != 1.0) ++hit; }
            ref[F.idx(ra, a, rb, k)] = v0[F.idx(ra, a, rb, k)] * fct;
          });
          if (hit) ctx.count("block_cases_with_affected_entries");
          FanProjData f = f0;
          apply_block_norm(f, bd, true);
          ctx.count("evaluations");
          ctx.count("apply_block_cases");
          const std::string sub = kase + ";block=" + (bc.first == -2 ? std::string("labelled") : vmc::str(bc.first) + "=" + vmc::str(bc.second));
          long w = compare_fan(F, f, ref, 4, first);
          if (w) ctx.violation("clause=apply_block_norm;kind=not_factor_of_block_pair", sub, vmc::str(w) + " entries wrong, first: " + first);
          apply_block_norm(f, bd, false);
          w = compare_fan(F, f, v0, 8, first);
          if (w) ctx.violation("clause=unapply_block_norm;kind=not_restored", sub, vmc::str(w) + " entries not restored, first: " + first);
        }
    }
  // ---- geometric factors
  if (!fc.geo_ok) { if (dsi == 0) ctx.count("apply_configs_without_geo(odd_block_size)"); }
  else
    {
      Orbits O(F.R, F.D, c.ab, c.tb);
      ctx.maxi("max_geo_orbits", O.norbits);
      GeoData3D g(c.ab, c.tb / 2, F.R, F.D);
      fill_geo_data(g, O);
      std::vector<double> ref(F.size());
      std::set<int> used;
      for_all(F, [&](int ra, int a, int rb, int k, int b) { ref[F.idx(ra, a, rb, k)] = v0[F.idx(ra, a, rb, k)] * O.G(ra, a, rb, b); used.insert(O.orbit(ra, a, rb, b)); });
      ctx.count("geo_classes_in_fans", (long long)used.size());
      FanProjData f = f0;
      apply_geo_norm(f, g, true);
      ctx.count("evaluations");
      ctx.count("apply_geo_cases");
      long w = compare_fan(F, f, ref, 4, first);
      if (w) ctx.violation("clause=apply_geo_norm;kind=not_factor_of_geometric_class", kase + ";geo=orbit_labelled", vmc::str(w) + " entries wrong, first: " + first);
      apply_geo_norm(f, g, false);
      w = compare_fan(F, f, v0, 8, first);
      if (w) ctx.violation("clause=unapply_geo_norm;kind=not_restored", kase + ";geo=orbit_labelled", vmc::str(w) + " entries not restored, first: " + first);
      // arbitrary positive (not class-consistent) factors: only apply(false) o apply(true) == id is demanded
      {
        long n = 0;
        for (int ra = 0; ra < c.ab; ++ra) for (int a = 0; a < c.tb / 2; ++a) for (int rb = ra; rb < F.R; ++rb) for (int b = a; b < a + F.D; ++b) g[ra][a][rb][b] = 0.5F + float((n++ * 5) % 61) / 16.F;
        FanProjData f2 = f0;
        apply_geo_norm(f2, g, true);
        apply_geo_norm(f2, g, false);
        ctx.count("evaluations");
        w = compare_fan(F, f2, v0, 8, first);
        if (w) ctx.violation("clause=unapply_geo_norm;kind=not_restored", kase + ";geo=arbitrary", vmc::str(w) + " entries not restored, first: " + first);
      }
    }
 }
}

// ================================================================================================================
// sec=ml
// ================================================================================================================
static void sec_ml(vmc::Ctx& ctx, const Cfg& c)
{
  const std::string kase = cfg_str(c);
  ctx.current("sec=ml", kase);
  FanCfg fc;
  if (!fan_cfg(ctx, c, fc)) return;
  const Fan& F = fc.F;
  ctx.count("configs_ml");
  if (F.md > 0 && F.h > 0) ctx.nontrivial(kase);
  const int nterms = (2 * F.md + 1) * F.nk();
  const double tol_fix = 64.0 * (nterms + 4); // in units of eps_float, relative
  std::string first;
  // models: all ones; labelled positive symmetric 1 + (id%7)/4
  std::vector<std::vector<double>> models(2, std::vector<double>(F.size(), 1.0));
  for_all(F, [&](int ra, int a, int rb, int k, int b) { models[1][F.idx(ra, a, rb, k)] = 1.0 + (F.lor_id(ra, a, rb, b) % 7) / 4.0; });
  const bool pairs = ctx.thorough() && F.ndet() <= 32;

  // ---- fixed point of iterate_efficiencies (with model)
  for (size_t mi = 0; mi < models.size(); ++mi)
    {
      const FanProjData M = make_fan(F, models[mi]);
      for (const EffCase& ec : eff_cases(F, pairs, false))
        {
          const DetectorEfficiencies E = to_stir_eff(F, ec.e);
          FanProjData data = M;
          apply_efficiencies(data, E, true);
          Array<2, float> sums(IndexRange2D(F.R, F.D));
          make_fan_sum_data(sums, data);
          DetectorEfficiencies e2 = E;
          iterate_efficiencies(e2, sums, M);
          ctx.count("evaluations");
          ctx.count("fixed_point_efficiency_cases");
          long w = 0;
          for (int r = 0; r < F.R; ++r)
            for (int a = 0; a < F.D; ++a)
              if (!close_rel(e2[r][a], E[r][a], tol_fix) && !w++) first = "efficiency[" + vmc::str(r) + "][" + vmc::str(a) + "] " + vmc::str(E[r][a]) + " -> " + vmc::str(e2[r][a]);
          if (w) ctx.violation("clause=fixed_point;component=efficiencies;version=model", kase + ";model=" + vmc::str(mi) + ";eff=" + ec.name, vmc::str(w) + " efficiencies moved, first: " + first);
          if (mi == 0)
            {
              // version without model (model == 1 on the whole fan)
              Array<2, float> s2(IndexRange2D(F.R, F.D));
              make_fan_sum_data(s2, E, F.md, F.h);
              DetectorEfficiencies e3 = E;
              iterate_efficiencies(e3, s2, F.md, F.h);
              ctx.count("evaluations");
              w = 0;
              for (int r = 0; r < F.R; ++r)
                for (int a = 0; a < F.D; ++a)
                  if (!close_rel(e3[r][a], E[r][a], tol_fix) && !w++) first = "efficiency[" + vmc::str(r) + "][" + vmc::str(a) + "] " + vmc::str(E[r][a]) + " -> " + vmc::str(e3[r][a]);
              if (w) ctx.violation("clause=fixed_point;component=efficiencies;version=no_model", kase + ";eff=" + ec.name, vmc::str(w) + " efficiencies moved, first: " + first);
            }
        }
    }
  // ---- fixed point of iterate_geo_norm
  if (fc.geo_ok)
    {
      Orbits O(F.R, F.D, c.ab, c.tb);
      GeoData3D G(c.ab, c.tb / 2, F.R, F.D);
      fill_geo_data(G, O);
      const int sumlen = 4 * fc.B.nab * fc.B.ntb;
      for (size_t mi = 0; mi < models.size(); ++mi)
        {
          // model: product of efficiencies (pattern2) and the model fan
          const FanProjData M0 = make_fan(F, models[mi]);
          FanProjData M = M0;
          apply_efficiencies(M, to_stir_eff(F, eff_pattern(F.ndet(), mi == 0 ? 0 : 2)), true);
          FanProjData data = M;
          apply_geo_norm(data, G, true);
          GeoData3D meas(c.ab, c.tb / 2, F.R, F.D), est(c.ab, c.tb / 2, F.R, F.D);
          make_geo_data(meas, data);
          iterate_geo_norm(est, meas, M);
          ctx.count("evaluations");
          ctx.count("fixed_point_geo_cases");
          long w = 0, n = 0;
          for (int ra = 0; ra < c.ab; ++ra)
            for (int a = 0; a < c.tb / 2; ++a)
              for (int rb = ra; rb <= F.rb_hi(ra); ++rb)
                for (int k = -F.h; k <= F.h; ++k)
                  {
                    const int b = F.b_of(a, k);
                    const double got = est(ra, a, rb, b), want = double((float)O.G(ra, a, rb, b));
                    ++n;
                    if (!close_rel(got, want, 64.0 * (sumlen + 4)) && !w++) first = "geo" + ent(ra, a, rb, b) + " " + vmc::str(want) + " -> " + vmc::str(got);
                  }
          ctx.count("fixed_point_geo_entries", n);
          if (w) ctx.violation("clause=fixed_point;component=geo", kase + ";model=" + vmc::str(mi), vmc::str(w) + " of " + vmc::str(n) + " geometric factors moved, first: " + first);
        }
    }
  // ---- fixed point of iterate_block_norm
  if (fc.block_ok)
    {
      const Blocks& B = fc.B;
      BlockData3D bd(B.nab, B.ntb, B.nab - 1, B.ntb - 1);
      fill_block_data(bd, B);
      for (size_t mi = 0; mi < models.size(); ++mi)
        {
          const FanProjData M = make_fan(F, models[mi]);
          FanProjData data = M;
          apply_block_norm(data, bd, true);
          BlockData3D meas(B.nab, B.ntb, B.nab - 1, B.ntb - 1), est(B.nab, B.ntb, B.nab - 1, B.ntb - 1);
          make_block_data(meas, data);
          iterate_block_norm(est, meas, M);
          ctx.count("evaluations");
          ctx.count("fixed_point_block_cases");
          long w = 0;
          std::set<long> seen;
          const int sumlen = B.acb * B.tcb * B.acb * B.tcb;
          for_all(F, [&](int ra, int a, int rb, int, int b) {
            if (ra > rb) return;
            const int rA = ra / B.acb, A = a / B.tcb, rB = rb / B.acb, Bb = b / B.tcb;
            if (!seen.insert((((long)rA * B.ntb + A) * B.nab + rB) * B.ntb + Bb).second) return;
            const double got = est(rA, A, rB, Bb), want = double((float)B.F(ra, a, rb, b));
            if (!close_rel(got, want, 64.0 * (sumlen + 4)) && !w++) first = "block" + ent(rA, A, rB, Bb) + " " + vmc::str(want) + " -> " + vmc::str(got);
          });
          ctx.count("fixed_point_block_entries", (long long)seen.size());
          if (w) ctx.violation("clause=fixed_point;component=block", kase + ";model=" + vmc::str(mi), vmc::str(w) + " block factors moved, first: " + first);
        }
    }
  // ---- KL descent over efficiency iterations
  {
    const int alphabet[4] = { 0, 1, 2, 7 };
    for (size_t mi = 0; mi < models.size(); ++mi)
      {
        const FanProjData M = make_fan(F, models[mi]);
        const std::vector<double> Mv = read_fan(F, M);
        // data sets (all symmetric: one value per unordered LOR)
        std::vector<std::pair<std::string, std::vector<double>>> datasets;
        {
          std::vector<double> d(F.size()), et = eff_pattern(F.ndet(), 2);
          for_all(F, [&](int ra, int a, int rb, int k, int b) { d[F.idx(ra, a, rb, k)] = double((float)(Mv[F.idx(ra, a, rb, k)] * et[F.det(ra, a)] * et[F.det(rb, b)])); });
          datasets.push_back({ "model_generated", d });
          for_all(F, [&](int ra, int a, int rb, int k, int b) { d[F.idx(ra, a, rb, k)] = alphabet[(F.lor_id(ra, a, rb, b) * 5 + 3) % 4]; });
          datasets.push_back({ "counts0127", d });
          std::vector<long> ids;
          for_all(F, [&](int ra, int a, int rb, int, int b) { ids.push_back(F.lor_id(ra, a, rb, b)); });
          std::sort(ids.begin(), ids.end()); ids.erase(std::unique(ids.begin(), ids.end()), ids.end());
          for (long hot : { ids.front(), ids[ids.size() / 2], ids.back() })
            {
              for_all(F, [&](int ra, int a, int rb, int k, int b) { d[F.idx(ra, a, rb, k)] = F.lor_id(ra, a, rb, b) == hot ? 7 : 0; });
              datasets.push_back({ "onehot" + vmc::str(hot), d });
            }
        }
        for (auto& ds : datasets)
          {
            const FanProjData data = make_fan(F, ds.second);
            Array<2, float> sums(IndexRange2D(F.R, F.D));
            make_fan_sum_data(sums, data);
            double total = 0; for (double x : ds.second) total += x; total /= 2;
            std::vector<EffCase> starts = eff_cases(F, false, true);
            for (const EffCase& st : starts)
              {
                DetectorEfficiencies E = to_stir_eff(F, st.e);
                auto evec = [&] { std::vector<double> e(F.ndet()); for (int r = 0; r < F.R; ++r) for (int a = 0; a < F.D; ++a) e[F.det(r, a)] = E[r][a]; return e; };
                auto stir_kl = [&] { FanProjData m = M; apply_efficiencies(m, E, true); return KL(data, m, 0.); };
                auto model_total = [&](const std::vector<double>& e) { double s = 0; for_all(F, [&](int ra, int a, int rb, int k, int b) { s += Mv[F.idx(ra, a, rb, k)] * e[F.det(ra, a)] * e[F.det(rb, b)]; }); return s / 2; };
                double kr0 = kl_ref(F, ds.second, Mv, evec()), ks0 = stir_kl();
                for (int it = 1; it <= 3; ++it)
                  {
                    const double scale0 = total + model_total(evec());
                    iterate_efficiencies(E, sums, M);
                    const std::vector<double> e1 = evec();
                    const double kr1 = kl_ref(F, ds.second, Mv, e1), ks1 = stir_kl();
                    const double scale = std::max(scale0, total + model_total(e1));
                    ctx.count("evaluations");
                    ctx.count("kl_iterations");
                    if (kr1 < kr0 - 1e-6 * scale) ctx.count("kl_strictly_decreased"); else ctx.count("kl_stationary");
                    const std::string sub = kase + ";model=" + vmc::str(mi) + ";data=" + ds.first + ";start=" + st.name + ";iter=" + vmc::str(it);
                    if (!(kr1 <= kr0 + 1e-6 * scale))
                      ctx.violation("clause=kl_descent;kl=reference_each_LOR_once", sub, "KL " + vmc::str(kr0) + " -> " + vmc::str(kr1) + " (scale " + vmc::str(scale) + ")");
                    if (!(ks1 <= ks0 + 1e-6 * 2 * scale))
                      ctx.violation("clause=kl_descent;kl=stir_KL_function", sub, "stir::KL(FanProjData) " + vmc::str(ks0) + " -> " + vmc::str(ks1) + " while the reference KL went " + vmc::str(kr0) + " -> " + vmc::str(kr1));
                    kr0 = kr1; ks0 = ks1;
                  }
              }
          }
      }
  }
}

// ================================================================================================================
static void run_case(vmc::Ctx& ctx, const Cfg& c)
{
  if (c.sec == "conv") sec_conv(ctx, c);
  else if (c.sec == "apply") sec_apply(ctx, c);
  else if (c.sec == "ml") sec_ml(ctx, c);
}

static std::vector<int> divisors(int n, int lo, int hi)
{
  std::vector<int> d; for (int i = lo; i <= hi && i <= n; ++i) if (n % i == 0) d.push_back(i); return d;
}

static std::vector<Cfg> enumerate(bool th)
{
  std::vector<Cfg> v;
  auto add = [&](const char* sec, int st, int D, int tb, int R, int ab, int md, int tangs) { Cfg c; c.sec = sec; c.st = st; c.D = D; c.tb = tb; c.R = R; c.ab = ab; c.md = md; c.tangs = tangs; v.push_back(c); };
  // --- generated scanners without gaps (simplest first)
  std::vector<int> Ds = th ? std::vector<int>{ 4, 6, 8, 10, 12, 16, 20, 24, 32 } : std::vector<int>{ 8, 12, 16 };
  for (int D : Ds)
    for (int tb : divisors(D, 2, D / 2))
      for (int R = 1; R <= (th ? 5 : 4); ++R)
        for (int ab : divisors(R, 1, R))
          for (int md = 0; md < R; ++md)
            {
              for (int tangs = 1; tangs < D; ++tangs) add("conv", 0, D, tb, R, ab, md, tangs);
              if (D <= (th ? 24 : 16) && R <= 4)
                for (int tangs = 1; tangs < D; tangs += 2) { add("apply", 0, D, tb, R, ab, md, tangs); add("ml", 0, D, tb, R, ab, md, tangs); }
            }
  // --- generated scanners with virtual crystals: type E1080 (transaxial + axial gap), type mMR (transaxial gap only)
  struct TA { int tb, ntb; };
  struct AX { int ab, nab; };
  std::vector<TA> tas = th ? std::vector<TA>{ { 3, 2 }, { 3, 4 }, { 4, 2 }, { 4, 4 }, { 5, 2 }, { 5, 4 }, { 3, 6 }, { 7, 2 }, { 2, 4 }, { 2, 8 } } : std::vector<TA>{ { 3, 2 }, { 3, 4 }, { 4, 4 }, { 5, 2 } };
  std::vector<AX> axs = th ? std::vector<AX>{ { 3, 1 }, { 2, 2 }, { 3, 2 }, { 2, 3 }, { 4, 2 } } : std::vector<AX>{ { 3, 1 }, { 2, 2 }, { 3, 2 } };
  for (TA ta : tas)
    {
      const int D = ta.tb * ta.ntb;
      for (AX ax : axs)
        { const int R = ax.ab * ax.nab - 1; for (int md = 0; md < R; ++md) for (int tangs = 1; tangs < D; ++tangs) add("conv", 1, D, ta.tb, R, ax.ab, md, tangs); }
      for (int R = 1; R <= (th ? 3 : 2); ++R)
        for (int ab : divisors(R, 1, R)) for (int md = 0; md < R; ++md) for (int tangs = 1; tangs < D; ++tangs) add("conv", 2, D, ta.tb, R, ab, md, tangs);
    }
  // --- predefined scanners with virtual crystals at reduced ring difference and fan size (thorough)
  if (th)
    for (int st : { 10, 11, 12 })
      for (int md : { 0, 1, 2 })
        for (int tangs : { 1, 2, 3, 8, 9, 10, 13, 14, 15, 17, 18, 19, 27, 28, 29, 41, 42, 43, 57 }) add("conv", st, 0, 0, 0, 0, md, tangs);
  return v;
}

int main(int argc, char** argv)
{
  vmc::Ctx ctx(argc, argv, "C20");
  small::quiet();
  ctx.rule = "work unit = (section conv|apply|ml, generated scanner [detectors/ring, crystals/block, rings, rings/block, virtual crystals], max ring difference, "
             "number of tangential positions = fan size); one evaluation = one call of the STIR function under test on a labelled input with EVERY entry / bin compared; "
             "non-trivial = max ring difference > 0 and fan size > 1";
  ctx.assume("exact equality for the conversions (labels are distinct integers < 2^24)");
  ctx.assume("apply_*: |impl-ref| <= 4 eps_float |ref| (one rounded product); apply(false) o apply(true): 8 eps_float; bin efficiencies 16 eps_float");
  ctx.assume("fixed points: relative 64 eps_float (n+4), n = number of terms of the fan / class sums (a wrong range or index changes a factor by >= 1/n)");
  ctx.assume("KL descent: KL_after <= KL_before + 1e-6 (sum data + sum model); reference KL counts every unordered LOR once, in double");
  ctx.assume("geometric factors are constant on the orbits of the symmetry group (block rotation, axial block shift, both mirrors, detector exchange); block factors are symmetric in the two blocks");
  ctx.assume("assert-only preconditions are respected: even number of (physical) detectors and of blocks per ring, fan size < detectors per ring, max ring difference < rings, "
             "no detector pair of the fan inside one block when block factors are used (BlockData3D has no entry for it and FanProjData::operator() does not check)");
  ctx.assume("bins outside the fan (|tangential position| > half fan size, only for even numbers of tangential positions) are not part of the fan representation: not checked");
  if (ctx.replaying())
    {
      auto m = vmc::kv(ctx.replay);
      Cfg c; c.sec = m["sec"]; c.st = atoi(m["st"].c_str()); c.D = atoi(m["D"].c_str()); c.tb = atoi(m["tb"].c_str()); c.R = atoi(m["R"].c_str());
      c.ab = atoi(m["ab"].c_str()); c.md = atoi(m["md"].c_str()); c.tangs = atoi(m["tangs"].c_str());
      run_case(ctx, c);
      return ctx.finish();
    }
  const std::vector<Cfg> cfgs = enumerate(ctx.thorough());
  uint64_t unit = 0;
  for (const Cfg& c : cfgs)
    {
      if (!ctx.mine(unit++)) continue;
      if (ctx.expired()) break;
      run_case(ctx, c);
      ctx.count("work_units");
      ctx.maxi("max_detectors_per_ring", c.D);
      ctx.maxi("max_rings", c.R);
    }
  return ctx.finish();
}
