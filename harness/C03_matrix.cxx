// C03 - system-matrix rows do not depend on symmetries, caching or request history.
//
// Part E (exhaustive configuration x input enumeration): for every generated (cylindrical scanner, sampling, image grid),
//   every num_tangential_LORs in {1,2,3} x restrict_to_cylindrical_FOV in {1,0}: the rows of ALL bins obtained from
//   ProjMatrixByBinUsingRayTracing under all 2^5 symmetry switch combinations x 3 cache modes (two request passes when caching:
//   forward order = misses, reverse order = hits) are compared with the rows of the same class with all symmetries off and the
//   cache disabled ("direct").  Every row: values >= 0, x/y inside the image, no coordinate twice, bin label = requested bin.
// Part H (explicit-state history search): request histories over {get(b) for b in a colliding set, clear_cache, enable_cache(0/1),
//   store_only_basic_bins_in_cache(0/1), set_up(G0), set_up(G1), set_up(G2)}; every returned row must equal the direct row of the
//   geometry that is currently set up.  G1 differs in the projection data, G2 only in the index range of the image.
//   Extended alphabet (re-configuration of a USED matrix): every public configuration setter of ProjMatrixByBinUsingRayTracing
//   (set_num_tangential_LORs(1|2|3), set_restrict_to_cylindrical_FOV(!cur), set_use_actual_detector_boundaries(!cur),
//   set_do_symmetry_*(!cur) x 5), each followed - as the class documentation demands - by set_up with an EQUAL (separately built)
//   proj-data-info and image of the currently set-up geometry; enable_cache / store_only_basic_bins_in_cache are documented as
//   callable without set_up and stay separate operations (followed or not by set_up(Gk) within the histories).  The reference model
//   tracks the current settings; every returned row must equal the row of a freshly built matrix with these settings and the cache
//   off (symmetries off as well unless use_actual_detector_boundaries is in effect, for which no tie screen exists: then the fresh
//   matrix has the same symmetry switches, so that both computations are identical).
// Part I: the same row checks for ProjMatrixByBinUsingInterpolation (its own two switches) - rows with/without symmetries.
#include "vmc.h"
#include "stir_small.h"
#include "ref_geom34.h"
#include "stir/recon_buildblock/ProjMatrixByBinUsingInterpolation.h"
#include "stir/recon_buildblock/DataSymmetriesForBins_PET_CartesianGrid.h"

using namespace stir;
using g34::Geo;
using g34::Row;

static const char* CACHE_NAME[3] = { "off", "all_bins", "basic_only" };

static shared_ptr<ProjMatrixByBinUsingRayTracing> make_rt(int sym, int cache, int L, bool fov)
{
  shared_ptr<ProjMatrixByBinUsingRayTracing> m(new ProjMatrixByBinUsingRayTracing());
  m->set_do_symmetry_90degrees_min_phi(sym & 1);
  m->set_do_symmetry_180degrees_min_phi(sym & 2);
  m->set_do_symmetry_swap_segment(sym & 4);
  m->set_do_symmetry_swap_s(sym & 8);
  m->set_do_symmetry_shift_z(sym & 16);
  m->set_num_tangential_LORs(L);
  m->set_restrict_to_cylindrical_FOV(fov);
  m->enable_cache(cache != 0);
  m->store_only_basic_bins_in_cache(cache == 2);
  return m;
}

static bool bin_coords_equal(const Bin& a, const Bin& b)
{
  return a.segment_num() == b.segment_num() && a.view_num() == b.view_num() && a.axial_pos_num() == b.axial_pos_num()
         && a.tangential_pos_num() == b.tangential_pos_num() && a.timing_pos_num() == b.timing_pos_num();
}

// checks of a single row that do not need a reference; returns false if the row cannot be compared (duplicates)
struct RowChecks
{
  vmc::Ctx& ctx;
  const VoxelsOnCartesianGrid<float>& im;
  std::string matrix, kase;
  bool z_excursions_reported_ray = false, z_excursions_reported_adj = false;
  bool check(const ProjMatrixElemsForOneBin& raw, const Row& row, const Bin& bin, bool direct_plane, const std::string& what)
  {
    bool comparable = true;
    if (!bin_coords_equal(raw.get_bin(), bin))
      ctx.violation("clause=bin_label;matrix=" + matrix, kase + ";bin=" + small::bin_str(bin),
                    what + ": row requested for bin " + small::bin_str(bin) + " is labelled " + small::bin_str(raw.get_bin()));
    bool neg = false, xy_out = false, z_out = false, dup = false;
    for (size_t i = 0; i < row.size(); ++i)
      {
        const g34::El& e = row[i];
        if (!(e.v >= 0)) neg = true;
        if (e.x < im.get_min_x() || e.x > im.get_max_x() || e.y < im.get_min_y() || e.y > im.get_max_y()) xy_out = true;
        else if (e.z < im.get_min_z() || e.z > im.get_max_z()) z_out = true;
        if (i && g34::coord_eq(row[i - 1], e)) dup = true;
      }
    const std::string c = kase + ";bin=" + small::bin_str(bin);
    if (neg) ctx.violation("clause=nonnegative;matrix=" + matrix, c, what + ": negative (or NaN) element in row of bin " + small::bin_str(bin) + ": " + g34::row_str(row));
    if (xy_out)
      ctx.violation("clause=inside_image;axis=xy;matrix=" + matrix, c,
                    what + ": element with x/y outside the image [" + vmc::str(im.get_min_x()) + "," + vmc::str(im.get_max_x()) + "] in row of bin " + small::bin_str(bin) + ": " + g34::row_str(row));
    if (z_out)
      {
        ctx.count(direct_plane ? "rows_with_z_outside_image_direct_planes" : "rows_with_z_outside_image_oblique");
        ctx.violation(std::string("clause=inside_image;axis=z;site=") + (direct_plane ? "add_adjacent_z" : "ray_trace") + ";matrix=" + matrix, c,
                      what + ": element with z outside the image planes [" + vmc::str(im.get_min_z()) + "," + vmc::str(im.get_max_z()) + "] (x,y inside) in row of bin " + small::bin_str(bin) + ": "
                          + g34::row_str(row));
      }
    if (dup)
      {
        comparable = false;
        ctx.violation("clause=duplicate;matrix=" + matrix, c, what + ": a voxel occurs twice in row of bin " + small::bin_str(bin) + ": " + g34::row_str(row, 40));
      }
    return comparable;
  }
};

// ------------------------------------------------------------------------------------------------ part E
struct ECase { Geo g; int L = 1; bool fov = true; int only_sym = -1, only_cache = -1; };

static std::string ecase_str(const ECase& c) { return "part=E;" + c.g.str() + ";L=" + vmc::str(c.L) + ";fov=" + vmc::str((int)c.fov); }

static std::string first_vacuous;
static void run_E(vmc::Ctx& ctx, const ECase& ec)
{
  const std::string base = ecase_str(ec);
  ctx.current("part=E;matrix=raytracing", base + (ec.only_sym >= 0 ? ";sym=" + vmc::str(ec.only_sym) + ";cache=" + vmc::str(ec.only_cache) : ""));
  g34::Built b;
  std::string w;
  if (small::throws([&] { b = g34::build(ec.g); }, &w)) { ctx.count("rejected_configs"); return; }
  shared_ptr<ProjMatrixByBinUsingRayTracing> direct;
  if (small::throws([&] { direct = small::direct_matrix(b.pdi, b.im, ec.L, ec.fov); }, &w)) { ctx.count("rejected_configs"); return; }
  const std::vector<Bin> bins = small::all_bins(*b.pdi);
  std::vector<Row> ref(bins.size());
  std::vector<char> screened(bins.size(), 0), direct_plane(bins.size(), 0);
  const double delta = g34::delta_of(*b.pdi, *b.im);
  ProjMatrixElemsForOneBin raw;
  if (small::throws([&] {
        for (size_t i = 0; i < bins.size(); ++i) { direct->get_proj_matrix_elems_for_one_bin(raw, bins[i]); ref[i] = g34::to_row(raw); }
      }, &w))
    { ctx.count("rejected_configs"); return; }
  size_t nscreen = 0, nonempty = 0;
  for (size_t i = 0; i < bins.size(); ++i)
    {
      screened[i] = g34::screen(*b.pdi, *b.im, bins[i], ec.L, ec.fov, g34::screen_thr(delta));
      direct_plane[i] = b.pdi->get_tantheta(bins[i]) == 0;
      nscreen += screened[i];
      nonempty += !ref[i].empty();
    }
  ctx.count("geometry_configs");
  ctx.count("bins_total", (long long)bins.size());
  ctx.count("bins_screened_as_ties", (long long)nscreen);
  ctx.maxi("max_screened_permille_in_a_config", (long long)(1000 * nscreen / bins.size()));
  if (nscreen * 10 > bins.size())
    {
      // the scanners are tiny (few distinct (|s|, phi) classes), so one tie class can exceed 10 % of a configuration: such a
      // configuration is NOT counted as checked; main() turns "too many of them" into a failure
      ctx.count("configs_vacuous_by_screen");
      const std::string msg = "vacuous by tie screen (" + vmc::str(nscreen) + " of " + vmc::str(bins.size()) + " bins), not checked: " + base;
      ctx.observe(msg);
      if (first_vacuous.empty()) first_vacuous = base;
      if (ctx.replaying()) ctx.violation("vacuous;clause=screen;matrix=raytracing", base, msg);
      return;
    }
  ctx.count("geometry_configs_checked");
  if (nonempty == 0) { ctx.count("configs_with_only_empty_rows"); }
  // STIR-independent sanity tie: with a cylindrical FOV and one ray per bin the summed intersection length lies between the
  // analytic chord and the chord + two voxel diagonals (ray tracing runs from the entry of the first to the exit of the last voxel)
  if (ec.fov && ec.L == 1 && !ec.g.tof)
    {
      const auto vs = b.im->get_voxel_size();
      const double fovrad = std::min(std::min(b.im->get_max_x(), -b.im->get_min_x()) * vs.x(), std::min(b.im->get_max_y(), -b.im->get_min_y()) * vs.y());
      const double diag = std::sqrt(vs.x() * vs.x() + vs.y() * vs.y() + vs.z() * vs.z());
      for (size_t i = 0; i < bins.size(); ++i)
        {
          if (screened[i] || ref[i].empty()) continue;
          const double s = b.pdi->get_s(bins[i]), tanth = b.pdi->get_tantheta(bins[i]);
          const double chord = 2 * std::sqrt(std::max(0., fovrad * fovrad - s * s)) * std::sqrt(1 + tanth * tanth);
          double sum = 0; for (auto& e : ref[i]) sum += e.v;
          sum *= vs.x();
          ctx.count("chord_length_ties_checked");
          if (!(sum >= chord * (1 - 1e-3) - 1e-3 && sum <= chord * (1 + 1e-3) + 2 * diag * 1.001))
            ctx.violation("clause=chord_length;matrix=raytracing", base + ";sym=0;cache=0;bin=" + small::bin_str(bins[i]),
                          "direct row of bin " + small::bin_str(bins[i]) + ": summed intersection length " + vmc::str(sum) + " mm outside [chord, chord + 2 voxel diagonals] = [" + vmc::str(chord) + ", "
                              + vmc::str(chord + 2 * diag) + "]");
        }
    }
  std::vector<char> failed_nocache(bins.size());
  for (int sym = 0; sym < 32; ++sym)
    {
      if (ec.only_sym >= 0 && sym != ec.only_sym) continue;
      std::fill(failed_nocache.begin(), failed_nocache.end(), 0);
      for (int cache = 0; cache < 3; ++cache)
        {
          if (ec.only_sym >= 0 && cache != 0 && cache != ec.only_cache) continue;
          const std::string kase = base + ";sym=" + vmc::str(sym) + ";cache=" + vmc::str(cache);
          ctx.current("part=E;matrix=raytracing", kase);
          auto m = make_rt(sym, cache, ec.L, ec.fov);
          if (small::throws([&] { m->set_up(b.pdi, b.im); }, &w))
            {
              ctx.violation("clause=set_up_rejects;matrix=raytracing", kase, "set_up with symmetries/cache throws although the direct matrix accepts the geometry: " + w);
              continue;
            }
          ctx.count("matrix_configs");
          RowChecks rc{ ctx, *b.im, "raytracing", kase };
          const DataSymmetriesForBins* symm = m->get_symmetries_ptr();
          const int passes = cache ? 2 : 1;
          for (int pass = 0; pass < passes; ++pass)
            for (size_t q = 0; q < bins.size(); ++q)
              {
                const size_t i = pass ? bins.size() - 1 - q : q;
                const Bin& bin = bins[i];
                std::string opname = "?";
                bool trivial = true;
                {
                  Bin bb = bin;
                  unique_ptr<SymmetryOperation> op = symm->find_symmetry_operation_from_basic_bin(bb);
                  trivial = op->is_trivial();
                  opname = trivial ? "trivial" : g34::symop_name(*op);
                }
                if (small::throws([&] { m->get_proj_matrix_elems_for_one_bin(raw, bin); }, &w))
                  {
                    ctx.violation("clause=get_throws;matrix=raytracing", kase + ";bin=" + small::bin_str(bin), "get_proj_matrix_elems_for_one_bin throws for bin " + small::bin_str(bin) + ": " + w);
                    continue;
                  }
                const Row row = g34::to_row(raw);
                ctx.count("evaluations");
                if (pass == 0)
                  {
                    ctx.count("rows_via_" + opname);
                    if (!trivial) { ctx.count("rows_via_nontrivial_symmetry"); }
                  }
                else
                  ctx.count(cache == 1 ? "rows_from_cache_hit_any_bin" : (trivial ? "rows_from_cache_hit_basic_bin" : "rows_from_cached_basic_bin_transformed"));
                const std::string what = "sym=" + vmc::str(sym) + " cache=" + CACHE_NAME[cache] + " pass=" + vmc::str(pass) + " op=" + opname;
                if (!rc.check(raw, row, bin, direct_plane[i], what)) continue;
                if (screened[i]) { ctx.count("rows_skipped_by_screen"); continue; }
                const double tol = 100 * delta * g34::row_max(ref[i]);
                std::string why;
                if (!trivial && !row.empty()) ctx.nontrivial(ec.g.str() + "|" + vmc::str(ec.L) + vmc::str((int)ec.fov) + "|" + vmc::str(sym) + "|" + vmc::str(cache) + "|" + small::bin_str(bin));
                if (!g34::rows_equal(ref[i], row, tol, &why))
                  {
                    if (cache == 0) failed_nocache[i] = 1;
                    else if (failed_nocache[i]) { ctx.count("violating_rows_repeated_with_cache"); continue; }
                    const std::string key = cache == 0 ? "clause=row_equal;matrix=raytracing;cache=off;symop=" + opname + ";tof=" + vmc::str(ec.g.tof)
                                                       : std::string("clause=row_equal;matrix=raytracing;cache=") + CACHE_NAME[cache] + ";pass=" + (pass ? "hit" : "miss") + ";tof=" + vmc::str(ec.g.tof);
                    ctx.violation(key, kase + ";bin=" + small::bin_str(bin),
                                  what + " bin " + small::bin_str(bin) + ": " + why + " (tol " + vmc::str(tol) + ")  direct: " + g34::row_str(ref[i]) + "  got: " + g34::row_str(row));
                  }
                else if (ctx.samples.size() < 3 && !trivial && row.size() > 3 && sym == 31)
                  ctx.sample("E " + ec.g.str() + " sym=31 cache=" + CACHE_NAME[cache] + " bin " + small::bin_str(bin) + " via " + opname + ": " + g34::row_str(row, 4) + " == direct");
              }
        }
    }
}

// ------------------------------------------------------------------------------------------------ part I (interpolation matrix)
static void run_I(vmc::Ctx& ctx, const Geo& g)
{
  const std::string base = "part=I;" + g.str();
  ctx.current("part=I;matrix=interpolation", base);
  g34::Built b;
  std::string w;
  if (small::throws([&] { b = g34::build(g); }, &w)) { ctx.count("rejected_configs"); return; }
  auto mk = [&](bool symphi, bool symz, int cache) {
    shared_ptr<ProjMatrixByBinUsingInterpolation> m(new ProjMatrixByBinUsingInterpolation());
    m->do_symmetry_90degrees_min_phi = symphi;
    m->do_symmetry_180degrees_min_phi = symphi;
    m->do_symmetry_swap_segment = symz;
    m->do_symmetry_swap_s = symz;
    m->do_symmetry_shift_z = symz;
    m->enable_cache(cache != 0);
    m->store_only_basic_bins_in_cache(cache == 2);
    return m;
  };
  auto direct = mk(false, false, 0);
  if (small::throws([&] { direct->set_up(b.pdi, b.im); }, &w)) { ctx.count("rejected_configs_interpolation"); ctx.observe("interpolation matrix rejects " + g.str() + ": " + w.substr(0, 120)); return; }
  const std::vector<Bin> bins = small::all_bins(*b.pdi);
  std::vector<Row> ref(bins.size());
  ProjMatrixElemsForOneBin raw;
  if (small::throws([&] { for (size_t i = 0; i < bins.size(); ++i) { direct->get_proj_matrix_elems_for_one_bin(raw, bins[i]); ref[i] = g34::to_row(raw); } }, &w))
    { ctx.count("rejected_configs_interpolation"); ctx.observe("interpolation matrix: get throws for " + g.str() + ": " + w.substr(0, 120)); return; }
  ctx.count("geometry_configs_interpolation");
  const double delta = g34::delta_of(*b.pdi, *b.im);
  for (int sw = 0; sw < 4; ++sw)
    for (int cache = 0; cache < 3; ++cache)
      {
        const std::string kase = base + ";sw=" + vmc::str(sw) + ";cache=" + vmc::str(cache);
        auto m = mk(sw & 1, sw & 2, cache);
        if (small::throws([&] { m->set_up(b.pdi, b.im); }, &w)) { ctx.violation("clause=set_up_rejects;matrix=interpolation", kase, w); continue; }
        RowChecks rc{ ctx, *b.im, "interpolation", kase };
        for (int pass = 0; pass < (cache ? 2 : 1); ++pass)
          for (size_t q = 0; q < bins.size(); ++q)
            {
              const size_t i = pass ? bins.size() - 1 - q : q;
              bool trivial = true; std::string opname;
              { Bin bb = bins[i]; auto op = m->get_symmetries_ptr()->find_symmetry_operation_from_basic_bin(bb); trivial = op->is_trivial(); opname = trivial ? "trivial" : g34::symop_name(*op); }
              if (small::throws([&] { m->get_proj_matrix_elems_for_one_bin(raw, bins[i]); }, &w)) { ctx.violation("clause=get_throws;matrix=interpolation", kase + ";bin=" + small::bin_str(bins[i]), w); continue; }
              const Row row = g34::to_row(raw);
              ctx.count("evaluations"); ctx.count("evaluations_interpolation");
              if (!trivial && pass == 0) ctx.count("rows_via_nontrivial_symmetry_interpolation");
              if (!rc.check(raw, row, bins[i], b.pdi->get_tantheta(bins[i]) == 0, "interpolation sw=" + vmc::str(sw))) continue;
              // the interpolation weights are continuous in the geometry (no first/last voxel decision): no screen, tolerance on values only
              const double tol = 100 * delta * std::max(g34::row_max(ref[i]), 1e-30);
              std::string why;
              if (!g34::rows_equal(ref[i], row, tol, &why))
                ctx.violation("clause=row_equal;matrix=interpolation;symop=" + opname + ";cache=" + CACHE_NAME[cache], kase + ";bin=" + small::bin_str(bins[i]),
                              "interpolation matrix sw=" + vmc::str(sw) + " bin " + small::bin_str(bins[i]) + ": " + why + "  direct: " + g34::row_str(ref[i]) + "  got: " + g34::row_str(row));
            }
      }
}

// ------------------------------------------------------------------------------------------------ part H
struct HSearch
{
  int id = 0, sym = 31;
  Geo g[3];
  int depth = 4;     // depth of the search over the base alphabet (gets, cache operations, set_up(G0|G1|G2))
  int full_depth = 0;             // depth of the search over the full alphabet (base + setter;set_up(equal geometry) operations)
  int setters_depth = 0;          // depth of the search over gets + setter;set_up operations, default cache mode (basic bins only)
  int setters_depth_all_bins = 0; // the same, matrix initially caching all bins
  bool all_bins_without_symmetry_setters = false; // quick tier: the all-bins search leaves out the 5 symmetry switch setters (rows in the cache do not depend on them)
};

struct HRefSet
{
  std::vector<Row> ref;     // per cset bin
  std::vector<char> usable; // bin exists in the geometry and is not screened for these settings
};
static const int N_BASE_OPS = 8, N_EXT_OPS = 10;
static const char* SETTER_NAME[N_EXT_OPS] = { "set_num_tangential_LORs", "set_num_tangential_LORs", "set_num_tangential_LORs", "set_restrict_to_cylindrical_FOV", "set_use_actual_detector_boundaries",
                                              "set_do_symmetry_90degrees_min_phi", "set_do_symmetry_180degrees_min_phi", "set_do_symmetry_swap_segment", "set_do_symmetry_swap_s", "set_do_symmetry_shift_z" };

struct HWorld
{
  HSearch hs;
  g34::Built b[3];
  g34::Built b2[3];                       // equal, separately built objects (for set_up after a setter)
  std::vector<Bin> cset;                  // colliding set
  // reference rows per (geometry, num_tangential_LORs, cylindrical FOV, use_actual_detector_boundaries in effect, symmetry switches of the
  // fresh matrix: -1 = all off = "direct")
  std::map<std::tuple<int, int, int, int, int>, HRefSet> refs;
  bool uadb_resets[3] = { false, false, false }; // a fresh matrix with use_actual_detector_boundaries resets the switch in set_up (compressed data)
  double delta[3];
  std::vector<std::string> opnames;
  int nget = 0;
  int init_cache = 2; // cache mode of the fresh matrix of a history (2 = the default: basic bins only)
};

static bool bin_in_range(const ProjDataInfo& p, const Bin& b)
{
  return b.segment_num() >= p.get_min_segment_num() && b.segment_num() <= p.get_max_segment_num() && b.view_num() >= p.get_min_view_num() && b.view_num() <= p.get_max_view_num()
         && b.axial_pos_num() >= p.get_min_axial_pos_num(b.segment_num()) && b.axial_pos_num() <= p.get_max_axial_pos_num(b.segment_num())
         && b.tangential_pos_num() >= p.get_min_tangential_pos_num() && b.tangential_pos_num() <= p.get_max_tangential_pos_num() && b.timing_pos_num() >= p.get_min_tof_pos_num()
         && b.timing_pos_num() <= p.get_max_tof_pos_num();
}

// reference rows of the colliding set from a freshly built matrix, cache off; sym < 0: all symmetries off ("direct", needs the tie screen)
static bool make_refs(vmc::Ctx& ctx, HWorld& w, int k, int L, int fov, int uadb, int sym)
{
  const auto key = std::make_tuple(k, L, fov, uadb, sym);
  if (w.refs.count(key)) return true;
  std::string what;
  auto m = make_rt(sym < 0 ? 0 : sym, 0, L, fov != 0);
  if (uadb) m->set_use_actual_detector_boundaries(true);
  if (small::throws([&] { m->set_up(w.b[k].pdi, w.b[k].im); }, &what)) return false;
  HRefSet rs;
  rs.ref.resize(w.cset.size());
  rs.usable.assign(w.cset.size(), 0);
  ProjMatrixElemsForOneBin raw;
  bool ok = true;
  for (size_t i = 0; i < w.cset.size() && ok; ++i)
    {
      if (!bin_in_range(*w.b[k].pdi, w.cset[i])) continue;
      if (sym < 0 && g34::screen(*w.b[k].pdi, *w.b[k].im, w.cset[i], L, fov != 0, g34::screen_thr(w.delta[k]))) { ctx.count("history_bins_screened"); continue; }
      if (small::throws([&] { m->get_proj_matrix_elems_for_one_bin(raw, w.cset[i]); }, &what)) { ok = false; break; }
      rs.ref[i] = g34::to_row(raw);
      rs.usable[i] = 1;
    }
  if (!ok) return false;
  ctx.count("history_reference_sets");
  w.refs[key] = rs;
  return true;
}

static bool prepare_H(vmc::Ctx& ctx, HWorld& w)
{
  std::string what;
  for (int k = 0; k < 3; ++k)
    if (small::throws([&] { w.b[k] = g34::build(w.hs.g[k]); }, &what)) { ctx.count("rejected_configs"); return false; }
  const ProjDataInfo& p = *w.b[0].pdi;
  // colliding set: a bin, its partners under each symmetry operation, its basic bin
  const int nv = p.get_num_views();
  const int s1 = p.get_max_segment_num() > 0 ? 1 : 0;
  const int a1 = std::min(1, p.get_max_axial_pos_num(s1));
  const int v1 = nv >= 8 ? nv / 2 + 1 : nv - 1; // a view in (90,135] resp. (90,180)
  std::vector<Bin> cand = { Bin(s1, v1, a1, -1, 0), Bin(-s1, v1, a1, -1, 0), Bin(s1, nv - v1, a1, -1, 0), Bin(s1, v1, a1, 1, 0), Bin(s1, v1, 0, -1, 0) };
  {
    auto m = make_rt(w.hs.sym, 2, 1, true);
    if (small::throws([&] { m->set_up(w.b[0].pdi, w.b[0].im); }, &what)) { ctx.count("rejected_configs"); return false; }
    Bin bb = cand[0];
    m->get_symmetries_ptr()->find_basic_bin(bb);
    cand.push_back(bb);
  }
  for (const Bin& c : cand)
    {
      bool dup = false;
      for (const Bin& d : w.cset) if (bin_coords_equal(c, d)) dup = true;
      if (!dup && bin_in_range(p, c)) w.cset.push_back(c);
    }
  for (int k = 0; k < 3; ++k)
    {
      if (small::throws([&] { w.b2[k] = g34::build(w.hs.g[k]); }, &what)) { ctx.count("rejected_configs"); return false; }
      w.delta[k] = g34::delta_of(*w.b[k].pdi, *w.b[k].im);
      if (!make_refs(ctx, w, k, 1, 1, 0, -1)) { ctx.count("rejected_configs"); return false; } // the other settings: on first use in build_H
      {
        auto m = make_rt(0, 0, 1, true);
        m->set_use_actual_detector_boundaries(true);
        if (small::throws([&] { m->set_up(w.b[k].pdi, w.b[k].im); }, &what)) { ctx.count("rejected_configs"); return false; }
        w.uadb_resets[k] = !m->get_use_actual_detector_boundaries();
      }
    }
  // observation only (NOT part of the oracle): the class documentation says that using the matrix after a setter without set_up results in error().
  // Histories therefore never do that; what actually happens is recorded.
  if (w.cset.size() >= 2)
    {
      auto m = make_rt(w.hs.sym, 1, 1, true);
      ProjMatrixElemsForOneBin raw;
      bool t0 = true, t1 = true;
      if (!small::throws([&] { m->set_up(w.b[0].pdi, w.b[0].im); m->get_proj_matrix_elems_for_one_bin(raw, w.cset[0]); m->set_num_tangential_LORs(2); }, &what))
        {
          t0 = small::throws([&] { m->get_proj_matrix_elems_for_one_bin(raw, w.cset[0]); }, &what);
          t1 = small::throws([&] { m->get_proj_matrix_elems_for_one_bin(raw, w.cset[1]); }, &what);
          ctx.count(t0 ? "probe_setter_without_set_up_cached_bin_error" : "probe_setter_without_set_up_cached_bin_row_returned");
          ctx.count(t1 ? "probe_setter_without_set_up_uncached_bin_error" : "probe_setter_without_set_up_uncached_bin_row_returned");
          if (!t0 && ctx.shard == 0 && w.hs.id == 0)
            ctx.observe("set_up; get(b); set_num_tangential_LORs(2) WITHOUT set_up; get(b): the cached row is returned without error() (documentation: 'using the matrix will result in a call to error()'); a bin not in the cache "
                        + std::string(t1 ? "raises the documented error" : "is computed without error") + ". Not demanded by C03, recorded only.");
        }
    }
  w.nget = (int)w.cset.size();
  for (auto& c : w.cset) w.opnames.push_back("get(" + small::bin_str(c) + ")");
  for (const char* n : { "clear_cache", "enable_cache(0)", "enable_cache(1)", "store_only_basic(0)", "store_only_basic(1)", "set_up(G0)", "set_up(G1)", "set_up(G2)" }) w.opnames.push_back(n);
  for (int e = 0; e < N_EXT_OPS; ++e)
    w.opnames.push_back(std::string(SETTER_NAME[e]) + (e < 3 ? "(" + vmc::str(e + 1) + ")" : "(!current)") + "+set_up(equal objects of current geometry)");
  return true;
}

static std::string hcase(const HWorld& w, const std::vector<int>& h) { return "part=H;id=" + vmc::str(w.hs.id) + ";ic=" + vmc::str(w.init_cache) + ";h=" + vmc::join(h); }

// canonical state of the matrix: current geometry, switches, cache content
static std::string canon_matrix(const ProjMatrixByBinUsingRayTracing& m, int cur)
{
  std::ostringstream o;
  o << "g" << cur << (m.cache_disabled ? "D" : "E") << (m.cache_stores_only_basic_bins ? "B" : "A") << (m.already_setup ? "S" : "s") << "L" << m.num_tangential_LORs << "f" << m.restrict_to_cylindrical_FOV << "u"
    << m.use_actual_detector_boundaries << "y" << m.do_symmetry_90degrees_min_phi << m.do_symmetry_180degrees_min_phi << m.do_symmetry_swap_segment << m.do_symmetry_swap_s << m.do_symmetry_shift_z << "|";
  for (int v = m.cache_collection.get_min_index(); v <= m.cache_collection.get_max_index(); ++v)
    for (int s = m.cache_collection[v].get_min_index(); s <= m.cache_collection[v].get_max_index(); ++s)
      {
        const auto& mp = m.cache_collection[v][s];
        if (mp.empty()) continue;
        std::vector<std::pair<uint64_t, uint64_t>> ks;
        for (auto& kv : mp)
          {
            uint64_t h = 1469598103934665603ULL;
            Row r = g34::to_row(kv.second);
            for (auto& e : r) { int c[3] = { e.z, e.y, e.x }; float f = (float)e.v; h = vmc::fnv(c, sizeof c, h); h = vmc::fnv(&f, sizeof f, h); }
            ks.push_back({ (uint64_t)kv.first, h });
          }
        std::sort(ks.begin(), ks.end());
        o << v << "," << s << ":";
        for (auto& k : ks) o << std::hex << k.first << "=" << k.second << std::dec << " ";
        o << "|";
      }
  return o.str();
}

static std::string build_H(vmc::Ctx& ctx, HWorld& w, const std::vector<int>& h, std::string& ek, std::string& em, bool verbose)
{
  ctx.current("part=H;matrix=raytracing", hcase(w, h));
  auto m = make_rt(w.hs.sym, w.init_cache, 1, true); // 2 = the defaults: cache enabled, basic bins only
  int cur = 0;
  int sym = w.hs.sym, L = 1, fov = 1, uadb = 0; // reference model of the current settings
  int last_setter = -1;                         // extended op index of the last setter;set_up before the current step
  std::vector<char> requested(w.cset.size(), 0), requested_before_setter(w.cset.size(), 0);
  std::string what;
  auto names = [&](size_t upto) { std::string s; for (size_t i = 0; i <= upto && i < h.size(); ++i) s += w.opnames[h[i]] + "; "; return s; };
  if (small::throws([&] { m->set_up(w.b[0].pdi, w.b[0].im); }, &what)) { ek = "clause=history;step=initial_set_up_throws"; em = what; return ""; }
  ProjMatrixElemsForOneBin raw;
  for (size_t i = 0; i < h.size(); ++i)
    {
      const int op = h[i];
      if (verbose) fprintf(stderr, "  step %zu: %s\n", i, w.opnames[op].c_str());
      if (op < w.nget)
        {
          const int rsym = uadb ? sym : -1;
          if (!make_refs(ctx, w, cur, L, fov, uadb, rsym)) { ctx.count("history_gets_without_reference"); continue; }
          const HRefSet& rs = w.refs[std::make_tuple(cur, L, fov, uadb, rsym)];
          if (!rs.usable[op]) continue; // bin not part of the current geometry (or screened there for the current settings): not requested
          const Bin& bin = w.cset[op];
          if (small::throws([&] { m->get_proj_matrix_elems_for_one_bin(raw, bin); }, &what))
            { ek = "clause=history;step=get_throws"; em = "history " + names(i) + ": " + what; return ""; }
          const Row row = g34::to_row(raw);
          ctx.count("history_rows_compared");
          if (last_setter >= 0)
            {
              ctx.count("history_rows_compared_after_setter");
              ctx.count(requested_before_setter[op] ? "history_rows_after_setter_bin_requested_before_it" : "history_rows_after_setter_bin_not_requested_before_it");
              if (uadb) ctx.count("history_rows_compared_with_actual_detector_boundaries");
              if (rs.ref[op].size() > 1) ctx.nontrivial("H" + vmc::str(w.hs.id) + "|" + vmc::join(std::vector<int>(h.begin(), h.begin() + i + 1)));
            }
          requested[op] = 1;
          const double tol = 100 * w.delta[cur] * g34::row_max(rs.ref[op]);
          std::string why;
          bool prev_setup = false, prev_other = false;
          for (size_t j = 0; j < i; ++j) if (h[j] >= w.nget + 5 && h[j] < w.nget + N_BASE_OPS) { prev_setup = true; if (h[j] - (w.nget + 5) != 0) prev_other = true; }
          if (!bin_coords_equal(raw.get_bin(), bin)) { ek = "clause=history;what=bin_label"; em = "history " + names(i) + ": row labelled " + small::bin_str(raw.get_bin()); return ""; }
          if (!g34::rows_equal(rs.ref[op], row, tol, &why))
            {
              ek = std::string("clause=history;what=") + (uadb ? "row_differs_from_fresh_matrix_with_current_settings" : "row_differs_from_direct_row_of_current_geometry") + ";after_set_up="
                   + (prev_other ? "other_geometry" : prev_setup ? "same_geometry" : "none") + ";current=G" + vmc::str(cur);
              if (last_setter >= 0)
                ek += std::string(";after_setter_and_set_up_same_geometry=") + SETTER_NAME[last_setter] + ";bin_requested_before_setter=" + vmc::str((int)requested_before_setter[op]);
              em = "history [" + names(i) + "] on geometry G" + vmc::str(cur) + " (" + w.hs.g[cur].str() + "), current settings num_tangential_LORs=" + vmc::str(L) + " restrict_to_cylindrical_FOV=" + vmc::str(fov)
                   + " use_actual_detector_boundaries=" + vmc::str(uadb) + " symmetry switches=" + vmc::str(sym) + ": row of " + small::bin_str(bin)
                   + " differs from the row of a freshly built matrix (cache off" + (uadb ? "" : ", symmetries off") + ") with the current settings on the currently set-up geometry: " + why + "  fresh: "
                   + g34::row_str(rs.ref[op]) + "  got: " + g34::row_str(row);
              return "";
            }
        }
      else
        {
          const int o = op - w.nget;
          bool threw = false;
          switch (o)
            {
            case 0: m->clear_cache(); break;
            case 1: m->enable_cache(false); break;
            case 2: m->enable_cache(true); break;
            case 3: m->store_only_basic_bins_in_cache(false); break;
            case 4: m->store_only_basic_bins_in_cache(true); break;
            case 5: case 6: case 7:
              threw = small::throws([&] { m->set_up(w.b[o - 5].pdi, w.b[o - 5].im); }, &what);
              cur = o - 5;
              break;
            default:
              {
                // a configuration setter on the used matrix, then set_up with equal (separately built) objects of the current geometry
                const int e = o - N_BASE_OPS;
                if (e < 3) { L = e + 1; m->set_num_tangential_LORs(L); }
                else if (e == 3) { fov = !fov; m->set_restrict_to_cylindrical_FOV(fov != 0); }
                else if (e == 4) { uadb = !uadb; m->set_use_actual_detector_boundaries(uadb != 0); }
                else
                  {
                    const int bit = 1 << (e - 5);
                    sym ^= bit;
                    const bool v = (sym & bit) != 0;
                    switch (e - 5)
                      {
                      case 0: m->set_do_symmetry_90degrees_min_phi(v); break;
                      case 1: m->set_do_symmetry_180degrees_min_phi(v); break;
                      case 2: m->set_do_symmetry_swap_segment(v); break;
                      case 3: m->set_do_symmetry_swap_s(v); break;
                      default: m->set_do_symmetry_shift_z(v); break;
                      }
                  }
                threw = small::throws([&] { m->set_up(w.b2[cur].pdi, w.b2[cur].im); }, &what);
                last_setter = e;
                requested_before_setter = requested;
                ctx.count("history_setter_then_set_up_steps");
              }
              break;
            }
          if (o >= 5 && uadb && w.uadb_resets[cur]) uadb = 0; // set_up resets the switch for compressed data (documented by a warning), as in a fresh matrix
          if (threw) { ek = "clause=history;step=set_up_throws"; em = "history " + names(i) + ": " + what; return ""; }
        }
    }
  return canon_matrix(*m, cur) + "M" + vmc::str(sym) + "," + vmc::str(L) + "," + vmc::str(fov) + "," + vmc::str(uadb);
}

static void run_H(vmc::Ctx& ctx, const HSearch& hs, uint64_t& unit)
{
  HWorld w; w.hs = hs;
  const bool replay = ctx.replaying();
  if (!prepare_H(ctx, w)) { return; }
  const int nops_all = (int)w.opnames.size();
  if (replay)
    {
      auto m = vmc::kv(ctx.replay);
      std::vector<int> h = vmc::ints(m["h"]);
      if (m.count("ic")) w.init_cache = atoi(m["ic"].c_str());
      std::string ek, em;
      fprintf(stderr, "replaying history search %d: G0=%s G1=%s G2=%s sym=%d\n", hs.id, hs.g[0].str().c_str(), hs.g[1].str().c_str(), hs.g[2].str().c_str(), hs.sym);
      build_H(ctx, w, h, ek, em, true);
      if (!ek.empty()) ctx.violation(ek + ";sym=" + vmc::str(hs.sym), hcase(w, h), em);
      return;
    }
  // passes: (alphabet, depth, initial cache mode).  base = gets + cache operations + set_up(G0|G1|G2); full = base + the 10 setter;set_up operations;
  // setters = gets + the 10 setter;set_up operations.  A pass contained in another one of the same search is not run.
  struct Pass { const char* tag; std::vector<int> alpha; int depth; int init_cache; };
  std::vector<Pass> passes;
  {
    std::vector<int> base, fullv, setters, value_setters;
    for (int o = 0; o < nops_all; ++o)
      {
        if (o < w.nget || (o >= nops_all - N_EXT_OPS && o < nops_all - 5)) value_setters.push_back(o); // without the 5 symmetry switches
        fullv.push_back(o);
        if (o < nops_all - N_EXT_OPS) base.push_back(o);
        if (o < w.nget || o >= nops_all - N_EXT_OPS) setters.push_back(o);
      }
    if (hs.depth > hs.full_depth) passes.push_back({ "base", base, hs.depth, 2 });
    if (hs.full_depth > 0) passes.push_back({ "full", fullv, hs.full_depth, 2 });
    if (hs.setters_depth > hs.full_depth) passes.push_back({ "setters", setters, hs.setters_depth, 2 });
    if (hs.setters_depth_all_bins > 0)
      passes.push_back({ hs.all_bins_without_symmetry_setters ? "value_setters_cache_all_bins" : "setters_cache_all_bins", hs.all_bins_without_symmetry_setters ? value_setters : setters, hs.setters_depth_all_bins, 1 });
  }
  for (const Pass& P : passes)
  {
  const int nops = (int)P.alpha.size();
  const int depth = P.depth;
  const bool ext = P.alpha.size() != (size_t)(nops_all - N_EXT_OPS);
  w.init_cache = P.init_cache;
  for (int first = 0; first < nops; ++first, ++unit)
    {
      if (!ctx.mine(unit)) continue;
      if (ctx.expired()) return;
      vmc::HistSearch s;
      s.nops = nops; s.max_depth = depth - 1;
      s.expired = [&] { return ctx.expired(); };
      auto full = [&](const std::vector<int>& h) { std::vector<int> f; f.push_back(P.alpha[first]); for (int o : h) f.push_back(P.alpha[o]); return f; };
      s.build = [&](const std::vector<int>& h, std::string& ek, std::string& em) { return build_H(ctx, w, full(h), ek, em, false); };
      s.on_violation = [&](const std::vector<int>& h, const std::string& k, const std::string& m) { ctx.violation(k + ";sym=" + vmc::str(hs.sym), hcase(w, full(h)), m); };
      s.on_state = [&](const std::vector<int>& h, const std::string& c) {
        ctx.digest(c);
        if (ctx.samples.size() < 6 && (int)h.size() + 1 == depth && c.size() > 12 && (!ext || P.alpha[first] >= nops_all - N_EXT_OPS || ctx.samples.size() < 3))
          { std::string n; for (int o : full(h)) n += w.opnames[o] + "; "; ctx.sample("H" + vmc::str(hs.id) + " (initial cache mode " + CACHE_NAME[P.init_cache] + "): " + n + "=> " + c.substr(0, 100)); }
      };
      vmc::HistResult r = s.run();
      ctx.count("states", r.states);
      ctx.count("transitions", r.transitions + 1);
      ctx.count("traces_validated_against_impl", r.executions);
      if (ext) { ctx.count("states_in_searches_with_setters", r.states); ctx.count("transitions_in_searches_with_setters", r.transitions + 1); }
      if (!r.complete) ctx.exhaustive = false;
      else ctx.maxi(std::string("history_depth_completed_alphabet_") + P.tag, depth);
      if (r.complete && !ext) ctx.maxi("history_depth_completed", depth);
    }
  ctx.maxi(std::string("history_alphabet_size_") + P.tag, nops);
  if (!ext) ctx.maxi("history_alphabet_size", nops);
  }
  ctx.count("history_searches");
}

// ------------------------------------------------------------------------------------------------ enumeration
static std::vector<Geo> geometries(bool thorough)
{
  std::vector<Geo> v;
  auto add = [&](int D, int R, int span, int mash, int tof, int nz, int nxy, int vxy, int zd, int oz, int md = -1) {
    Geo g; g.D = D; g.R = R; g.span = span; g.mash = mash; g.tof = tof; g.nz = nz; g.nxy = nxy; g.vxy = vxy; g.zd = zd; g.oz = oz; g.md = md;
    if (D == 12)
      {
        // 6 views = 30 degree steps: with an odd FOV radius (in voxels) the central ray of 4 of the 6 views starts exactly on a voxel
        // boundary (n*sin(30 deg) = n/2), i.e. > 10 % of the bins are exact ties.  Use the next grid size with an even radius.
        int n = nxy > 0 ? nxy : ((D / 2) | 1);
        const int fovrad = n % 2 ? n / 2 : n / 2 - 1;
        if (fovrad % 2) n += 2;
        g.nxy = n;
      }
    v.push_back(g);
  };
  if (!thorough)
    {
      // simplest first
      add(8, 1, 1, 1, 0, 0, 0, 100, 2, 0);
      add(8, 2, 1, 1, 0, 0, 0, 100, 2, 0);
      add(8, 2, 1, 1, 0, 4, 4, 100, 2, 0);   // even sizes
      add(8, 2, 3, 1, 0, 0, 0, 100, 2, 0);   // span 3
      add(12, 2, 1, 1, 0, 0, 9, 125, 2, 1);  // 6 views (no 90-degree symmetry), coarse voxels, shifted origin
      add(16, 3, 1, 1, 0, 0, 0, 100, 2, 0);
      add(16, 2, 1, 2, 0, 0, 6, 100, 4, 0);  // view mashing (phi offset: no rotational symmetries), z spacing = ring spacing / 4
      add(8, 2, 1, 1, 0, 0, 7, 50, 2, 0);    // fine voxels
      add(16, 3, 3, 1, 0, 5, 6, 100, 2, -1); // span 3, 5 planes, even xy, origin -1 plane
      add(8, 2, 1, 1, 5, 0, 0, 100, 2, 0);   // TOF
      add(16, 2, 1, 1, 0, 0, 0, 100, 1, 0);  // z spacing = ring spacing
      return v;
    }
  for (int tof : { 0, 5 })
    for (int D : { 8, 12, 16 })
      for (int R : { 1, 2, 3 })
        for (int span : { 1, 3 })
          {
            if (span > 2 * R - 1) continue;
            for (int mash : { 1, 2 })
              {
                if ((D / 2) % mash) continue;
                if (tof && (mash != 1 || D == 12)) continue;
                // image grids: (nz, nxy, vxy, zd, oz)
                const int grids[][5] = { { 0, 0, 100, 2, 0 }, { 0, 4, 100, 2, 0 }, { 2 * R, 8, 100, 2, 0 }, { 0, 5, 150, 2, 1 }, { 0, 9, 50, 2, 0 }, { 3, 3, 100, 2, -1 },
                                         { 0, 0, 100, 4, 0 }, { 0, 0, 100, 1, 0 }, { 1, 5, 100, 2, 0 }, { 2, 0, 100, 2, 0 } };
                for (auto& gr : grids)
                  {
                    if (tof && !(gr[2] == 100 && gr[4] == 0 && gr[3] == 2)) continue;
                    add(D, R, span, mash, tof, gr[0], gr[1], gr[2], gr[3], gr[4]);
                    if (span == 3 && R == 3 && gr[1] == 0 && gr[3] == 2 && gr[4] == 0 && gr[0] == 0) add(D, R, span, mash, tof, gr[0], gr[1], gr[2], gr[3], gr[4], 1);
                  }
              }
          }
  return v;
}

static std::vector<HSearch> searches(bool thorough)
{
  std::vector<HSearch> v;
  auto G = [](int D, int R, int span, int nz, int nxy, int vxy = 100, int zd = 2) { Geo g; g.D = D; g.R = R; g.span = span; g.nz = nz; g.nxy = nxy; g.vxy = vxy; g.zd = zd; return g; };
  auto add = [&](int sym, Geo g0, Geo g1, Geo g2, int depth) { HSearch s; s.id = (int)v.size(); s.sym = sym; s.g[0] = g0; s.g[1] = g1; s.g[2] = g2; s.depth = depth;
    // quick: gets + setters to depth 3 from a matrix caching basic bins only / all bins (the latter without the symmetry switch setters), first search only; thorough: gets + setters to depth 3 in both cache modes for every search, and the full alphabet to depth 4 for the first two searches (a full set_up costs ~4 ms: FastErf table)
    s.full_depth = (thorough && v.size() < 2) ? 4 : 0; s.setters_depth = (thorough || v.empty()) ? 3 : 0; s.setters_depth_all_bins = (thorough || v.empty()) ? 3 : 0; s.all_bins_without_symmetry_setters = !thorough;
    v.push_back(s); };
  const int d = thorough ? 5 : 4;
  // G1: other projection data (more rings) ; G2: same projection data and voxel size, other number of planes / xy size
  add(31, G(8, 2, 1, 0, 0), G(8, 3, 1, 0, 0), G(8, 2, 1, 5, 0), d);
  add(31, G(16, 2, 1, 0, 0), G(16, 2, 3, 0, 0), G(16, 2, 1, 0, 5), d);
  if (thorough)
    {
      add(16 + 8, G(8, 2, 1, 0, 0), G(8, 2, 1, 0, 0, 150), G(8, 2, 1, 4, 4), d);
      add(4 + 2, G(12, 2, 1, 0, 0), G(8, 2, 1, 0, 0), G(12, 2, 1, 0, 5), d);
      add(0, G(8, 2, 1, 0, 0), G(8, 3, 1, 0, 0), G(8, 2, 1, 5, 0), d);
    }
  return v;
}

int main(int argc, char** argv)
{
  vmc::Ctx ctx(argc, argv, "C03");
  small::quiet();
  ctx.rule = "E: (scanner, sampling, image grid) x num_tangential_LORs x FOV shape x 2^5 symmetry switches x 3 cache modes x ALL bins (x 2 request passes when caching): each row compared with the row "
             "of the same class with symmetries and cache off; non-trivial = row obtained through a non-trivial SymmetryOperation and non-empty (distinct by configuration+bin). "
             "H: BFS over request histories (get(colliding bins), clear_cache, enable_cache, store_only_basic_bins_in_cache, set_up(G0|G1|G2), and - re-configuration of a used matrix - each of the 8 configuration setters of "
             "ProjMatrixByBinUsingRayTracing (number of tangential LORs 1|2|3, cylindrical FOV, actual detector boundaries, 5 symmetry switches) followed by set_up with equal objects of the current geometry) replayed on a fresh "
             "matrix, every returned row compared with the row of a freshly built matrix with the current settings and the cache off; state = (geometry, all switches and settings, cache keys+content); "
             "non-trivial history = one that compares a row with more than one element after a setter";
  ctx.assume("the setters of ProjMatrixByBinUsingRayTracing are documented as 'call set_up afterwards, otherwise error()': histories call set_up with the current geometry directly after each of them; enable_cache / "
             "store_only_basic_bins_in_cache carry no such requirement and occur with and without a following set_up");
  ctx.assume("while use_actual_detector_boundaries is in effect the tie screen (derived from the bin centre coordinates) does not apply: the reference is then a fresh matrix with the same symmetry switches (identical computation, cache off)");
  ctx.assume("row comparison after sorting: values agree within 100*delta*(row maximum), delta = 16*eps_float*(ring radius / voxel size xy); elements below that may be present or absent (DESIGN 5.C03)");
  ctx.assume("bins with a ray end point (or grid-parallel coordinate) within max(100*delta, 0.003) voxels of a voxel boundary (0.003 > 1e-4 * longest path in voxels: the ray tracer ends at 0.9999 of the last exit) or of one of the implementation's documented decision thresholds are excluded by a screen computed "
             "in double from (s, phi, t, tan(theta), grid) only; a configuration with > 10 % screened bins is vacuous: not counted as checked, listed in the observations; any such configuration in the quick tier or (25 % in thorough) > 10 % of them in a thorough shard is a violation");
  ctx.assume("z indices outside the image planes are reported under their own key (clause=inside_image;axis=z): ray tracing is not clipped in z while forward/back projection clip z");
  ctx.assume("NDEBUG build: bins outside the currently set-up projection data are never requested (assert-only precondition)");
  const bool th = ctx.thorough();
  if (ctx.replaying())
    {
      auto m = vmc::kv(ctx.replay);
      if (m["part"] == "E")
        {
          ECase ec; ec.g = Geo::parse(m); ec.L = atoi(m["L"].c_str()); ec.fov = atoi(m["fov"].c_str());
          if (m.count("sym")) { ec.only_sym = atoi(m["sym"].c_str()); ec.only_cache = atoi(m["cache"].c_str()); }
          run_E(ctx, ec);
        }
      else if (m["part"] == "I") run_I(ctx, Geo::parse(m));
      else if (m["part"] == "H")
        {
          // the search definitions of both tiers share their first entries; find by id in the thorough list
          auto ss = searches(true);
          const int id = atoi(m["id"].c_str());
          uint64_t u = 0;
          if (id >= 0 && id < (int)ss.size()) run_H(ctx, ss[id], u);
        }
      return ctx.finish();
    }
  uint64_t unit = 0;
  // H first (long units, spread over the shards), then E, then I
  for (const HSearch& hs : searches(th)) run_H(ctx, hs, unit);
  for (const Geo& g : geometries(th))
    for (int L : { 1, 2, 3 })
      for (int fov : { 1, 0 })
        {
          if (!ctx.mine(unit++)) continue;
          if (ctx.expired()) break;
          ECase ec; ec.g = g; ec.L = L; ec.fov = fov;
          run_E(ctx, ec);
        }
  {
    const long long vac = ctx.counters["configs_vacuous_by_screen"], all = ctx.counters["geometry_configs"];
    if (vac > 0 && (!th || vac * 4 > all)) // (per shard; the thorough grid family contains anisotropic voxel sizes whose grid lines coincide with many LOR end points)
      ctx.violation("vacuous;clause=screen;matrix=raytracing", first_vacuous, vmc::str(vac) + " of " + vmc::str(all) + " (geometry, LORs, FOV) configurations of this shard have > 10 % of their bins on rounding ties "
                    "(quick tier: none allowed; thorough: at most 25 % of a shard's configurations): vacuous, not passed; see observations");
  }
  {
    std::vector<Geo> gi = geometries(false);
    for (const Geo& g : gi)
      {
        if (g.tof) continue;
        if (!ctx.mine(unit++)) continue;
        if (ctx.expired()) break;
        run_I(ctx, g);
      }
  }
  return ctx.finish();
}
