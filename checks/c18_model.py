#!/usr/bin/env python3
"""C18_model: conformance of the TLA+ model of the double-checked lazy initialisation (models/C18Dcl.tla) with the real code.

For every configuration (which table each thread of the team needs first):
  1. TLC checks the model exhaustively (invariants: a thread never uses an incompletely filled table, a table is filled at most
     once, mutual exclusion inside the fill loop, no deadlock, end state complete) and dumps all reachable states; the history
     variable `trace` makes every path a distinct state, so the terminal states ARE the complete behaviours of the model.
  2. the real code (harness C18_threads --traces, OpenMP build on the vomp scheduler) is explored over ALL schedules of the same
     team and writes the complete event trace of every execution (vomp observer: every schedule point, not only choice points).
  3. the two SETS of traces must be equal: impl <= model (every behaviour of the code is a behaviour of the model, so the model's
     invariants speak about the code) and model <= impl (every model behaviour was executed on the implementation; the model does
     not contain behaviours the code cannot show), and every implementation execution must have produced the single-thread result.
  4. model sanity (non-vacuity of the invariants): the variant `Broken` (flag published before the fill loop) must be rejected by TLC.
Writes a shard-style result JSON for vcheck."""
import sys, os, json, subprocess, re, time, shutil, hashlib

def arg(name, default=None):
    a = sys.argv
    return a[a.index(name) + 1] if name in a else default

exe, out, tmpdir, tier = arg("--exe"), arg("--out"), arg("--tmpdir", "."), arg("--tier", "quick")
deadline = float(arg("--deadline", "0") or 0)
replay = arg("--replay")
VERIF = os.path.dirname(os.path.dirname(os.path.abspath(__file__)))
t0 = time.time()
# op -> table needed first (0: none; the ring-difference tables are built in the constructor) and fill hook points for the
# 8-detector scanner of body L: table 1 = view/tangpos -> detectors (D/2 = 4 rows), table 2 = detectors -> view/tangpos (D = 8 rows)
OP_TABLE = {0: 2, 1: 1, 2: 1, 3: 0, 4: 0}
FILLS = [4, 8]
configs = [[1, 1], [0, 0], [0, 1], [1, 0], [2, 1], [3, 4], [1, 3], [0, 2]]
if tier == "thorough":
    # three threads: all on one table, two on one table + a thread that needs none, and one configuration with two tables in flight
    # (1,0,3: 604656 schedules / 2.9e6 model states; 0,0,1 and 0,1,1 have > 1.8e6 schedules and are left out - stated in DESIGN.md)
    configs += [[1, 1, 1], [0, 0, 0], [2, 2, 1], [0, 0, 3], [1, 1, 3], [0, 3, 4], [1, 2, 3], [1, 0, 3]]
if replay:
    configs = [[int(x) for x in replay.split("ops=")[1].split(";")[0].split(",")]]

res = {"property": "C18", "tier": tier, "shard": 0, "nshards": 1, "exhaustive": True, "wall_s": 0, "digest": "", "rule": "",
       "counters": {}, "maxima": {}, "samples": [], "assumptions": [], "observations": [], "violations": []}
C = res["counters"]
def count(k, n=1): C[k] = C.get(k, 0) + n
def violation(key, case, msg): res["violations"].append({"key": key, "case": case, "msg": msg}); count("violating_cases")

def run_tlc(ops, broken, workdir):
    os.makedirs(workdir, exist_ok=True)
    shutil.copy(os.path.join(VERIF, "models", "C18Dcl.tla"), workdir)
    needs = [OP_TABLE[o] for o in ops]
    with open(os.path.join(workdir, "MC.tla"), "w") as f:
        f.write("---- MODULE MC ----\nEXTENDS C18Dcl\nMCNeeds == <<%s>>\nMCFills == <<%s>>\n====\n" % (", ".join(map(str, needs)), ", ".join(map(str, FILLS))))
    with open(os.path.join(workdir, "MC.cfg"), "w") as f:
        f.write("CONSTANTS\n NT = %d\n Needs <- MCNeeds\n Fills <- MCFills\n Broken = %s\nINIT Init\nNEXT Next\nINVARIANT Inv\n" % (len(ops), "TRUE" if broken else "FALSE"))
    dump = os.path.join(workdir, "states")
    try:
        p = subprocess.run(["tlc", "-workers", "4", "-metadir", os.path.join(workdir, "md"), "-dump", dump, "-config", "MC.cfg", "MC.tla"],
                           cwd=workdir, stdout=subprocess.PIPE, stderr=subprocess.STDOUT, text=True, timeout=1800)
    except subprocess.TimeoutExpired:
        return {"timeout": True}
    txt = p.stdout
    m = re.search(r"(\d+) states generated, (\d+) distinct states found, (\d+) states left", txt)
    gen, dist = (int(m.group(1)), int(m.group(2))) if m else (0, 0)
    violated = "Error:" in txt and "Invariant" in txt and "violated" in txt
    other_error = ("Error:" in txt) and not violated
    traces = set()
    if os.path.exists(dump + ".dump"):
        for block in open(dump + ".dump").read().split("\nState ")[0:]:
            pcs = re.search(r"/\\ pc = \((.*?)\)\n", block, re.S)
            tr = re.search(r"/\\ trace = <<(.*?)>>\n/\\", block + "\n/\\", re.S)
            if not pcs or not tr: continue
            states = re.findall(r":> \"(\w+)\"", pcs.group(1))
            if any(s != "done" for s in states): continue
            ev = re.findall(r"<<(\d+), \"(\w+)\">>", tr.group(1))
            traces.add(",".join("%s:%s" % e for e in ev))
    return {"generated": gen, "distinct": dist, "violated": violated, "other_error": other_error, "traces": traces, "log": txt[-3000:]}

impl = {}; impl_bad = {}; summary = {}
def impl_traces(ops, budget):
    """all schedules of the real code for this team configuration (C18_threads --traces); False if the budget ran out"""
    impl_file = os.path.join(tmpdir, "impl_traces.txt")
    if os.path.exists(impl_file): os.unlink(impl_file)
    try:
        p = subprocess.run([exe, "--traces", impl_file, "--trace-ops", ",".join(map(str, ops))], stdout=subprocess.PIPE, stderr=subprocess.STDOUT, text=True, cwd=tmpdir, timeout=budget)
    except subprocess.TimeoutExpired:
        return False
    if p.returncode != 0 or not os.path.exists(impl_file):
        sys.stderr.write(p.stdout[-3000:]); sys.exit(2)
    for line in open(impl_file):
        line = line.rstrip("\n")
        if line.startswith("#summary"):
            m = re.match(r"#summary (\S+) schedules=(\d+) complete=(\d) bad=(\d+)", line); summary[m.group(1)] = (int(m.group(2)), int(m.group(3)), int(m.group(4))); continue
        o, tr, ok = line.split("|")
        impl.setdefault(o, set()).add(tr)
        if ok != "1": impl_bad.setdefault(o, []).append(tr)
    os.unlink(impl_file)
    return True

for ops in configs:
    key_ops = ",".join(map(str, ops)); case = "ops=%s;tier=%s" % (key_ops, tier)
    kcls = "threads=%d;tables=%s" % (len(ops), "".join(str(OP_TABLE[o]) for o in ops))
    wd = os.path.join(tmpdir, "tlc_" + key_ops.replace(",", "_"))
    # configurations are ordered cheapest first; when the deadline is near the remaining ones are reported as not explored
    left = deadline - (time.time() - t0) if deadline else 1e9
    if left < (60 if len(ops) < 3 else 0.35 * deadline) or not impl_traces(ops, max(left, 30)):
        res["exhaustive"] = False; res["observations"].append("deadline: configuration ops=%s and the ones after it were not explored" % key_ops); break
    m = run_tlc(ops, False, wd)
    if m.get("timeout"):
        res["exhaustive"] = False; res["observations"].append("TLC did not finish configuration ops=%s within 1800 s; it and the ones after it are not covered" % key_ops); break
    count("model_configurations"); count("states", m["distinct"]); count("transitions", m["generated"])
    if m["other_error"] or m["distinct"] == 0:
        sys.stderr.write(m["log"]); sys.exit(2)
    if m["violated"]:
        violation("clause=model_invariant_violated;" + kcls, case, "TLC reports an invariant violation of the DCL model: " + m["log"][-1500:])
    it = impl.get(key_ops, set()); n_s, complete, bad = summary.get(key_ops, (0, 0, 0))
    count("impl_schedules", n_s); count("model_traces", len(m["traces"])); count("impl_distinct_traces", len(it))
    if not complete: res["exhaustive"] = False
    if bad:
        violation("clause=impl_outcome_differs_from_single_thread;" + kcls, case, "%d schedules gave a result different from the single-thread result, e.g. trace %s" % (bad, impl_bad[key_ops][0]))
    only_impl = sorted(it - m["traces"]); only_model = sorted(m["traces"] - it)
    count("traces_validated_against_impl", len(m["traces"] & it))
    if only_impl:
        violation("clause=impl_trace_not_in_model;" + kcls, case, "%d behaviours of the implementation are not behaviours of the model (the model's invariants do not cover them), e.g. %s" % (len(only_impl), only_impl[0]))
    if only_model:
        violation("clause=model_trace_not_in_impl;" + kcls, case, "%d behaviours of the model were not produced by any schedule of the implementation, e.g. %s" % (len(only_model), only_model[0]))
    if len(res["samples"]) < 6 and m["traces"]:
        res["samples"].append("ops=%s: %d model states, %d model traces == %d implementation traces (%d schedules); e.g. %s" % (key_ops, m["distinct"], len(m["traces"]), len(it), n_s, sorted(m["traces"])[len(m["traces"]) // 2]))
    # non-vacuity: the broken protocol must be rejected by the model checker (only meaningful when two threads share a table)
    tabs = [OP_TABLE[o] for o in ops]
    if any(t and tabs.count(t) > 1 for t in tabs):
        b = run_tlc(ops, True, wd + "_broken")
        count("broken_variants_checked")
        if b.get("timeout"): res["exhaustive"] = False
        elif b["violated"]: count("broken_variants_rejected_by_tlc")
        else: violation("clause=model_vacuous;" + kcls, case, "TLC accepts the variant that publishes the flag before filling the table: the invariants are vacuous")
    shutil.rmtree(wd, ignore_errors=True); shutil.rmtree(wd + "_broken", ignore_errors=True)
    impl.pop(key_ops, None); res["maxima"]["team_configurations_completed"] = C["model_configurations"]

res["rule"] = "unit = one team configuration (first lazy-table operation of each thread); TLC explores the DCL model exhaustively (states/transitions = TLC's distinct/generated states, history variable makes every path a state); traces_validated_against_impl = model behaviours that were reproduced as the complete event trace of an execution of the real code under the vomp scheduler (all schedules, no preemption bound); the two trace sets must be equal"
res["assumptions"] = ["the model's schedule points are vomp's: region start, entry to a named critical section, STIR_VERIF_POINT hooks (.fill, .before_publish), thread end, join; sequentially consistent",
                      "op -> table map and number of fill hook points per table are those of the 8-detector scanner of body L; a wrong map shows up as a trace-set mismatch, never as a silent pass"]
res["wall_s"] = time.time() - t0
res["digest"] = hashlib.sha1(json.dumps(sorted(C.items())).encode()).hexdigest()[:16]
json.dump(res, open(out, "w"), indent=1)
sys.exit(1 if res["violations"] else 0)
